"""C11 - TLS handshake messages are accepted only in protocol order.

(1) Table: every handshake state (reached by a legitimate prefix against the
    scriptable reference peers of vlib/reftls.py) x every message type byte.
(2) A key-holding adversary server performs the real key exchange with an
    aioquic client and sends every ordered sub-multiset of
    {EE, CertificateRequest, Certificate, Certificate with an empty list, CertificateVerify (genuine / wrong key), Finished},
    recomputing signatures and the Finished MAC over exactly the transcript it
    sent; likewise the client flight against an aioquic server; PSK handshakes.
Oracle: reference TLS 1.3 order automaton + traffic-key release trace.
"""
import itertools

PROPERTY = "C11"
LEVEL = "exploration"
RULE = (
    "table: one evaluation = one (state, message type) pair, 12 states x 256 types, exhaustive: a type TLS 1.3 does not permit in that state "
    "must raise an alert with description unexpected_message, leave the state unchanged and install no key. "
    "sequences: one evaluation = one ordered sequence of flight messages (each at most twice, bounded length) produced by a key-holding "
    "adversary that recomputes CertificateVerify (genuine key and wrong key) and Finished over the transcript it actually sent: the aioquic "
    "client completes iff the sequence is EE [CertificateRequest] Certificate CertificateVerify(genuine) Finished, or EE Finished when a PSK was "
    "offered and selected; the aioquic server completes iff the client flight is Finished, or Certificate CertificateVerify Finished / "
    "Certificate(empty) Finished when it requested a certificate; ONE_RTT keys are released only by the accepted Finished, handshake keys only "
    "after ServerHello. Non-trivial = a sequence within one deletion / insertion / swap / duplication of the legal one whose MAC verifies over "
    "its own transcript; distinct by (scenario, sequence)."
)
ASSUMPTIONS = [
    "CLIENT_HANDSHAKE_START is excluded: there handle_message is the 'start' call and no network input can reach it",
    "post-handshake types TLS 1.3 permits but QUIC / aioquic do not support (KeyUpdate, post-handshake CertificateRequest) may be refused with any alert",
    "vlib/reftls.py is the trusted base (anchored by interoperating with an unmodified aioquic in both roles)",
    "a non-alert exception raised while processing a message counts as 'not accepted' here (escaping exceptions are C05's subject)",
]

UNEXPECTED = 10


# ------------------------------------------------------------------ reaching states


def reach(state, seed):
    """-> (Ctx, dict of legit messages by type seen so far (for bodies), genuine next message bytes or None)"""
    from vlib import endpoints as E, tlsbench as B

    bodies = {}

    def rec(b):
        if b:
            bodies.setdefault(b[0], b)
        return b

    if state.startswith("CLIENT"):
        want_cr = state in ("CLIENT_EXPECT_CERTIFICATE",)
        c = B.Ctx(True, client_cert=want_cr)
        ch = rec(c.feed(b"")["INITIAL"])
        s = B.ref_server()
        s.receive_client_hello(ch)
        steps = [("server_hello", "CLIENT_EXPECT_SERVER_HELLO"), ("encrypted_extensions", "CLIENT_EXPECT_ENCRYPTED_EXTENSIONS")]
        if want_cr:
            steps += [("certificate_request", "CLIENT_EXPECT_CERTIFICATE_REQUEST_OR_CERTIFICATE"), ("certificate", "CLIENT_EXPECT_CERTIFICATE")]
        else:
            steps += [("certificate", "CLIENT_EXPECT_CERTIFICATE_REQUEST_OR_CERTIFICATE")]
        steps += [("certificate_verify", "CLIENT_EXPECT_CERTIFICATE_VERIFY"), ("finished", "CLIENT_EXPECT_FINISHED"), (None, "CLIENT_POST_HANDSHAKE")]
        for meth, st in steps:
            if c.state != st:
                raise RuntimeError("harness: expected state %s, context is in %s" % (st, c.state))
            if st == state:
                nxt = rec(getattr(s, meth)()) if meth else None
                # also prepare well-formed bodies of the other types from a parallel full handshake
                return c, bodies, nxt
            out = c.feed(rec(getattr(s, meth)()))
            for v in out.values():
                for m in split(v):
                    rec(m)
        raise RuntimeError("harness: state %s not reached" % state)
    else:
        req = state in ("SERVER_EXPECT_CERTIFICATE", "SERVER_EXPECT_CERTIFICATE_VERIFY")
        sv = B.Ctx(False, request_client_cert=req)
        rc = B.ref_client(client_cert=req)
        ch = rec(rc.client_hello())
        if state == "SERVER_EXPECT_CLIENT_HELLO":
            return sv, bodies, ch
        out = sv.feed(ch)
        for v in out.values():
            for m in split(v):
                rec(m)
        rc.receive_server_flight(out["INITIAL"])
        rc.receive_server_flight(out["HANDSHAKE"])
        if req:
            if state == "SERVER_EXPECT_CERTIFICATE":
                return sv, bodies, rec(rc.certificate())
            sv.feed(rec(rc.certificate()))
            if state == "SERVER_EXPECT_CERTIFICATE_VERIFY":
                return sv, bodies, rec(rc.certificate_verify())
            raise RuntimeError(state)
        if state == "SERVER_EXPECT_FINISHED":
            return sv, bodies, rec(rc.finished())
        sv.feed(rec(rc.finished()))
        if state == "SERVER_POST_HANDSHAKE":
            return sv, bodies, None
        raise RuntimeError(state)


def split(data):
    out = []
    p = 0
    while p + 4 <= len(data):
        ln = int.from_bytes(data[p + 1 : p + 4], "big")
        out.append(data[p : p + 4 + ln])
        p += 4 + ln
    return out


STATES = [
    "CLIENT_EXPECT_SERVER_HELLO", "CLIENT_EXPECT_ENCRYPTED_EXTENSIONS", "CLIENT_EXPECT_CERTIFICATE_REQUEST_OR_CERTIFICATE", "CLIENT_EXPECT_CERTIFICATE",
    "CLIENT_EXPECT_CERTIFICATE_VERIFY", "CLIENT_EXPECT_FINISHED", "CLIENT_POST_HANDSHAKE", "SERVER_EXPECT_CLIENT_HELLO", "SERVER_EXPECT_CERTIFICATE",
    "SERVER_EXPECT_CERTIFICATE_VERIFY", "SERVER_EXPECT_FINISHED", "SERVER_POST_HANDSHAKE",
]
PERMITTED = {
    "CLIENT_EXPECT_SERVER_HELLO": {2}, "CLIENT_EXPECT_ENCRYPTED_EXTENSIONS": {8}, "CLIENT_EXPECT_CERTIFICATE_REQUEST_OR_CERTIFICATE": {13, 11},
    "CLIENT_EXPECT_CERTIFICATE": {11}, "CLIENT_EXPECT_CERTIFICATE_VERIFY": {15}, "CLIENT_EXPECT_FINISHED": {20}, "CLIENT_POST_HANDSHAKE": {4},
    "SERVER_EXPECT_CLIENT_HELLO": {1}, "SERVER_EXPECT_CERTIFICATE": {11}, "SERVER_EXPECT_CERTIFICATE_VERIFY": {15}, "SERVER_EXPECT_FINISHED": {20},
    "SERVER_POST_HANDSHAKE": set(),
}
# TLS 1.3 permits these, QUIC / aioquic need not support them: any refusal is fine
OPTIONAL = {"CLIENT_POST_HANDSHAKE": {24, 13}, "SERVER_POST_HANDSHAKE": {24, 11, 15, 20}, "SERVER_EXPECT_FINISHED": {5}, "CLIENT_EXPECT_SERVER_HELLO": set()}


def table(ctx, state):
    import aioquic.tls as T
    from vlib import endpoints as E, reftls as L

    # well-formed bodies for as many types as possible (from one complete reference handshake)
    generic = {}
    with E.pinned(("c11-bodies",)):
        from vlib import tlsbench as B

        c = B.Ctx(True, client_cert=True)
        ch = c.feed(b"")["INITIAL"]
        s = B.ref_server()
        s.receive_client_hello(ch)
        generic[1] = ch
        for meth in ("server_hello", "encrypted_extensions", "certificate_request", "certificate", "certificate_verify", "finished"):
            m = getattr(s, meth)()
            generic[m[0]] = m
            c.feed(m)
        generic[4] = s.new_session_ticket()
        generic[24] = bytes([24, 0, 0, 1, 0])
        generic[5] = bytes([5, 0, 0, 0])
    for t in range(256):
        with E.pinned(("c11", state)):
            c, bodies, nxt = reach(state, 0)
            keys_before = list(c.keys)
            msg = generic.get(t) or (bytes([t, 0, 0, 0]) if t % 2 else bytes([t, 0, 0, 3, 1, 2, 3]))
            permitted = t in PERMITTED[state]
            if permitted and nxt is not None and nxt[0] == t:
                msg = nxt
            case = {"kind": "table", "state": state, "type": t}
            ctx.case((state, t), nontrivial=(t in generic), classes=["table:" + state])
            err = None
            try:
                c.feed(msg)
            except T.Alert as a:
                err = a
            except Exception as e:
                err = e
            if permitted:
                if isinstance(err, T.Alert) and int(err.description) == UNEXPECTED and nxt is not None and nxt[0] == t:
                    ctx.violation("permitted-message-refused", "in state %s the genuine next message of type %d was refused with unexpected_message" % (state, t), case)
                continue
            if t in OPTIONAL.get(state, ()):  # may be refused with any alert
                if err is None and c.state != state:
                    ctx.violation("unsupported-message-changed-state", "in state %s message type %d moved the context to %s" % (state, t, c.state), case)
                continue
            if err is None:
                ctx.violation("out-of-order-message-accepted", "in state %s a message of type %d was processed without an alert (state now %s)" % (state, t, c.state), case)
            elif not isinstance(err, T.Alert) or int(err.description) != UNEXPECTED:
                ctx.violation("out-of-order-message-wrong-alert", "in state %s a message of type %d raised %r instead of the unexpected_message alert" % (state, t, err), case)
            if c.state != state:
                ctx.violation("out-of-order-message-changed-state", "in state %s a refused message of type %d left the context in %s" % (state, t, c.state), case)
            if c.keys != keys_before:
                ctx.violation("out-of-order-message-installed-keys", "in state %s a refused message of type %d installed keys %r" % (state, t, c.keys[len(keys_before) :]), case)
        if ctx.want_sample():
            ctx.sample(case)
    ctx.extra["exhaustive"] = True


# ------------------------------------------------------------------ adversarial sequences


def multiset_sequences(alphabet, maxlen, maxrep=2):
    for n in range(0, maxlen + 1):
        for seq in itertools.product(alphabet, repeat=n):
            if all(seq.count(a) <= maxrep for a in set(seq)):
                yield seq


def with_early_data_variants(seqs, enabled=True):
    """each short sequence again with its EncryptedExtensions carrying the early_data extension ("EEed"), which nothing asked for when no PSK was
    accepted.  C11 is about the order of messages: "EEed" counts as an EncryptedExtensions message, and the flight is legal iff it is legal with
    a plain one (whether an unsolicited extension must be refused is outside the statement)"""
    for seq in seqs:
        yield seq
        if enabled and "EE" in seq and len(seq) <= 4:
            yield tuple("EEed" if x == "EE" else x for x in seq)


def legal_server_flight(seq, psk):
    seq = tuple("EE" if x == "EEed" else x for x in seq)
    return _legal_server_flight(seq, psk)


def _legal_server_flight(seq, psk):
    if psk is True:
        return seq == ("EE", "Fin")
    return seq in (("EE", "Cert", "CV", "Fin"), ("EE", "CR", "Cert", "CV", "Fin"))


def edit_distance_one(seq, legal_list):
    for L in legal_list:
        if abs(len(seq) - len(L)) <= 1:
            # one deletion / insertion / substitution / adjacent swap
            if len(seq) == len(L):
                diff = [i for i in range(len(L)) if seq[i] != L[i]]
                if len(diff) == 1 or (len(diff) == 2 and diff[1] == diff[0] + 1 and seq[diff[0]] == L[diff[1]] and seq[diff[1]] == L[diff[0]]):
                    return True
            elif len(seq) + 1 == len(L):
                if any(L[:i] + L[i + 1 :] == seq for i in range(len(L))):
                    return True
            elif len(seq) == len(L) + 1:
                if any(seq[:i] + seq[i + 1 :] == L for i in range(len(seq))):
                    return True
    return False


def server_flight_sequences(ctx, maxlen, part, nparts, psk, leaf="ed25519"):
    import aioquic.tls as T
    from vlib import endpoints as E, tlsbench as B, reftls as L

    other_key = E.load_key("client.key")  # same key type as the leaf (Ed25519), different key
    alphabet = ["EE", "CR", "Cert", "CertEmpty", "CV", "CVbad", "Fin", "FinBad"] if not psk else ["EE", "Cert", "CertEmpty", "CV", "Fin", "FinBad"]
    legal_list = [("EE", "Fin")] if psk is True else [("EE", "Cert", "CV", "Fin"), ("EE", "CR", "Cert", "CV", "Fin")]
    ticket = None
    psk_secret = {}
    if psk:
        # one full handshake to obtain a ticket the reference server can resume
        with E.pinned(("c11-ticket",)):
            c = B.Ctx(True)
            s = B.ref_server()
            s.receive_client_hello(c.feed(b"")["INITIAL"])
            c.feed(s.server_hello())
            out = c.feed(s.encrypted_extensions() + s.certificate() + s.certificate_verify() + s.finished())
            s.check_client_finished(out["HANDSHAKE"])
            nst = s.new_session_ticket()
            c.feed(nst)
            if not c.tickets:
                raise RuntimeError("harness: the aioquic client did not store the session ticket")
            ticket = c.tickets[0]
            psk_secret = dict(s.issued_tickets)
    if psk is True and part == 0:
        # the server "selects" a pre-shared key identity the client did not offer
        with E.pinned(("c11-psk-bad-index",)):
            c = B.Ctx(True, session_ticket=ticket)
            s = B.ref_server(psk_lookup=lambda ident: psk_secret.get(bytes(ident)))
            s.receive_client_hello(c.feed(b"")["INITIAL"])
            case = {"kind": "seq", "psk": True, "seq": ["SH(selected_identity=1)", "EE", "Fin"]}
            ctx.case(("sf", "bad-index"), nontrivial=True, classes=["server-flight-psk"])
            try:
                c.feed(s.server_hello(select_psk=True, selected_identity=1))
                c.feed(s.encrypted_extensions())
                c.feed(s.finished())
            except Exception:
                pass
            if c.done():
                ctx.violation("client-finished-after-illegal-server-flight", "the client completed a handshake in which the server selected PSK identity 1 although only identity 0 was offered", case)
    i = 0
    for seq in with_early_data_variants(multiset_sequences(alphabet, maxlen), enabled=psk is not True):
        if "CV" in seq and "CVbad" in seq:
            continue
        if "FinBad" in seq[:-1]:
            continue
        i += 1
        if i % nparts != part:
            continue
        with E.pinned(("c11-seq", psk, leaf)):
            c = B.Ctx(True, session_ticket=ticket, client_cert=True)
            ch = c.feed(b"")["INITIAL"]
            s = B.ref_server(leaf_name=leaf, psk_lookup=(lambda ident: psk_secret.get(bytes(ident))) if psk else None)
            s.receive_client_hello(ch)
            c.feed(s.server_hello(select_psk=True) if psk is True else s.server_hello())
            if psk is True and not s.psk_selected:
                raise RuntimeError("harness: reference server could not select the PSK")
            hs_keys = [k for k in c.keys if k[1] == "HANDSHAKE"]
            if ("DECRYPT", "HANDSHAKE") not in hs_keys:
                ctx.violation("handshake-keys-not-released-after-server-hello", "keys after ServerHello: %r" % (c.keys,), {"kind": "seq", "psk": psk, "seq": list(seq)})
            err = None
            completed_at = None
            for k, sym in enumerate(seq):
                if sym == "EE":
                    m = s.encrypted_extensions()
                elif sym == "EEed":
                    m = s.encrypted_extensions(early_data=True)
                elif sym == "CR":
                    m = s.certificate_request()
                elif sym == "Cert":
                    m = s.certificate()
                elif sym == "CertEmpty":
                    m = s.certificate(chain=[])
                elif sym == "CV":
                    m = s.certificate_verify()
                elif sym == "CVbad":
                    m = s.certificate_verify(private_key=other_key, algorithm=0x0807)
                elif sym == "FinBad":
                    # a Finished whose MAC does not verify (last byte flipped)
                    m = s.finished()
                    m = m[:-1] + bytes([m[-1] ^ 0x01])
                else:
                    m = s.finished()
                one_rtt_before = [x for x in c.keys if x[1] == "ONE_RTT"]
                state_before = c.state
                keys_before = list(c.keys)
                try:
                    c.feed(m)
                except T.Alert as a:
                    err = a
                    if c.state != state_before or c.keys != keys_before:
                        ctx.violation("refused-message-changed-state", "%s (sequence %s) was refused with %r but moved the client from %s to %s (keys %r)" % (sym, list(seq[: k + 1]), a, state_before, c.state, c.keys[len(keys_before) :]), {"kind": "seq", "psk": psk, "seq": list(seq)})
                    break
                except Exception as e:
                    err = e
                    if c.state != state_before:
                        ctx.violation("refused-message-changed-state", "%s (sequence %s) raised %r but moved the client from %s to %s" % (sym, list(seq[: k + 1]), e, state_before, c.state), {"kind": "seq", "psk": psk, "seq": list(seq)})
                    break
                one_rtt_after = [x for x in c.keys if x[1] == "ONE_RTT"]
                if one_rtt_after != one_rtt_before and not (sym == "Fin" and c.done()):
                    ctx.violation("one-rtt-keys-released-before-finished", "ONE_RTT keys %r were installed by %s (sequence %s), context state %s" % (one_rtt_after, sym, list(seq[: k + 1]), c.state), {"kind": "seq", "psk": psk, "seq": list(seq)})
                if c.done() and completed_at is None:
                    completed_at = k
            trusted = leaf == "ed25519"
            # (with a certificate the client cannot trust - its CertificateVerify is genuine - no flight is legal: the refusal must come with
            # CertificateVerify and leave the state where it was)
            legal = legal_server_flight(seq, psk) and trusted
            # a legal flight followed by extra messages: completion happens at the legal prefix
            prefix_legal = trusted and any(legal_server_flight(seq[:n], psk) for n in range(len(seq) + 1))
            case = {"kind": "seq", "psk": psk, "seq": list(seq), "leaf": leaf}
            near = edit_distance_one(seq, legal_list)
            ctx.case(("sf", psk, seq), nontrivial=near and not legal, classes=["server-flight" + ("-psk" if psk else ""), "server-flight:" + ("legal" if legal else "illegal")])
            if c.done() and not prefix_legal:
                ctx.violation(
                    "client-finished-after-illegal-server-flight",
                    "the aioquic client reached CLIENT_POST_HANDSHAKE after the server flight %s (PSK selected: %s): the adversary knows all keys and recomputed every MAC over its own transcript" % (list(seq), psk),
                    case,
                )
            if legal and not c.done():
                ctx.violation("client-refused-legal-server-flight", "the legal flight %s did not complete the handshake: %r" % (list(seq), err), case)
            if ctx.want_sample():
                ctx.sample(case)
    ctx.extra["exhaustive"] = True


def client_flight_sequences(ctx, maxlen, part, nparts, request):
    import aioquic.tls as T
    from vlib import endpoints as E, tlsbench as B

    other_key = E.load_key("leaf_ed25519.key")  # same key type as the client certificate (Ed25519), different key
    alphabet = ["Cert", "CertEmpty", "CV", "CVbad", "Fin", "FinBad"]
    legal_list = [("Cert", "CV", "Fin"), ("CertEmpty", "Fin")] if request else [("Fin",)]
    i = 0
    for seq in multiset_sequences(alphabet, maxlen):
        if "CV" in seq and "CVbad" in seq:
            continue
        if "FinBad" in seq[:-1]:
            continue
        i += 1
        if i % nparts != part:
            continue
        with E.pinned(("c11-cseq", request)):
            sv = B.Ctx(False, request_client_cert=request)
            rc = B.ref_client(client_cert=True)
            out = sv.feed(rc.client_hello())
            rc.receive_server_flight(out["INITIAL"])
            rc.receive_server_flight(out["HANDSHAKE"])
            err = None
            for k, sym in enumerate(seq):
                if sym == "Cert":
                    m = rc.certificate()
                elif sym == "CertEmpty":
                    m = rc.certificate(chain=[])
                elif sym == "CV":
                    m = rc.certificate_verify()
                elif sym == "CVbad":
                    m = rc.certificate_verify(private_key=other_key, algorithm=0x0807)
                elif sym == "FinBad":
                    m = rc.finished()
                    m = m[:-1] + bytes([m[-1] ^ 0x01])
                else:
                    m = rc.finished()
                before = [x for x in sv.keys if x == ("DECRYPT", "ONE_RTT")]
                state_before, keys_before = sv.state, list(sv.keys)
                try:
                    sv.feed(m)
                except T.Alert as a:
                    err = a
                    if sv.state != state_before or sv.keys != keys_before:
                        ctx.violation("refused-message-changed-state", "%s (client flight %s) was refused with %r but moved the server from %s to %s (keys %r)" % (sym, list(seq[: k + 1]), a, state_before, sv.state, sv.keys[len(keys_before) :]), {"kind": "cseq", "request": request, "seq": list(seq)})
                    break
                except Exception as e:
                    err = e
                    break
                after = [x for x in sv.keys if x == ("DECRYPT", "ONE_RTT")]
                if after != before and not (sym == "Fin" and sv.done()):
                    ctx.violation("one-rtt-keys-released-before-finished", "server installed the 1-RTT read key on %s (sequence %s)" % (sym, list(seq[: k + 1])), {"kind": "cseq", "request": request, "seq": list(seq)})
            legal = tuple(seq) in legal_list
            prefix_legal = any(tuple(seq[:n]) in legal_list for n in range(len(seq) + 1))
            case = {"kind": "cseq", "request": request, "seq": list(seq)}
            ctx.case(("cf", request, seq), nontrivial=edit_distance_one(tuple(seq), legal_list) and not legal, classes=["client-flight" + ("-requested" if request else ""), "client-flight:" + ("legal" if legal else "illegal")])
            if sv.done() and not prefix_legal:
                ctx.violation("server-finished-after-illegal-client-flight", "the aioquic server (client certificate requested: %s) reached SERVER_POST_HANDSHAKE after the client flight %s" % (request, list(seq)), case)
            if legal and not sv.done():
                ctx.violation("server-refused-legal-client-flight", "the legal client flight %s did not complete the handshake: %r" % (list(seq), err), case)
            if ctx.want_sample():
                ctx.sample(case)
    ctx.extra["exhaustive"] = True



def psk_client_hellos(ctx):
    """ClientHello messages that offer a pre-shared key to an aioquic server holding the ticket: the binder is the only thing that authenticates the
    PSK and everything derived from it (the 0-RTT read key, 'resumed').  Exhaustive over resumption secret x identity x psk modes x early_data x age."""
    import itertools
    import aioquic.tls as T
    from vlib import endpoints as E, tlsbench as B, reftls as L

    with E.pinned(("c11-psk-ch", "ticket")):
        store = {}
        sv0 = B.Ctx(False, ticket_store=store)
        rc0 = B.ref_client()
        out = sv0.feed(rc0.client_hello())
        rc0.receive_server_flight(out["INITIAL"])
        rc0.receive_server_flight(out["HANDSHAKE"])
        sv0.feed(rc0.finished())
        nst = [m for m in rc0.receive_server_flight(out["ONE_RTT"]) if m["type"] == 4]
        if not nst or not sv0.done():
            raise RuntimeError("harness: no session ticket from the aioquic server")
        good = rc0.ticket_psk(nst[0])
    n = len(good["key"])
    keys = {"genuine": good["key"], "zeros": bytes(n), "one-bit-off": bytes([good["key"][0] ^ 1]) + good["key"][1:], "last-bit-off": good["key"][:-1] + bytes([good["key"][-1] ^ 0x80])}
    idents = {"known": good["identity"], "unknown": bytes(len(good["identity"])), "known-plus-byte": good["identity"] + b"\x00"}
    modes = {"dhe": (L.PSK_DHE_KE,), "ke": (L.PSK_KE,), "ke+dhe": (L.PSK_KE, L.PSK_DHE_KE), "absent": None}
    ages = {"right": good["obfuscated_age"], "zero": 0, "max": (1 << 32) - 1}
    for (kn, key), (idn, ident), (mn, mode), early, (an, age) in itertools.product(keys.items(), idents.items(), modes.items(), (False, True), ages.items()):
        case = {"kind": "pskch", "key": kn, "identity": idn, "modes": mn, "early_data": early, "age": an}
        authentic = kn == "genuine" and idn == "known"
        with E.pinned(("c11-psk-ch", kn, idn, mn, early, an)):
            sv = B.Ctx(False, ticket_store=dict(store))
            rc = B.ref_client(psk=dict(good, key=key, identity=ident, obfuscated_age=age), psk_modes=mode, early_data=early)
            state0 = sv.state
            err = None
            try:
                out = sv.feed(rc.client_hello())
            except T.Alert as a:
                err = a
            except Exception as e:
                err = e
            zero_rtt = [k for k in sv.keys if k[1] == "ZERO_RTT"]
            outcome = "refused" if err is not None else ("resumed" if sv.ctx.session_resumed else "full-handshake")
            ctx.case(("pskch", kn, idn, mn, early, an), nontrivial=not authentic and idn == "known", classes=["psk-client-hello:" + outcome, "psk-client-hello:" + ("authentic" if authentic else "binder-does-not-verify" if idn == "known" else "identity-" + idn)])
            if zero_rtt and not authentic:
                ctx.violation("zero-rtt-key-released-without-verified-binder", "ClientHello offering the ticket identity (%s) with resumption secret %s, modes %s, early_data %s: the server released %r although the binder does not verify (outcome: %s, %r)" % (idn, kn, mn, early, zero_rtt, outcome, err), case)
            if zero_rtt and not early:
                ctx.violation("zero-rtt-key-released-without-early-data-offer", "the server released %r for a ClientHello without the early_data extension" % (zero_rtt,), case)
            if not authentic and (sv.ctx.session_resumed or sv.ctx.early_data_accepted) :
                ctx.violation("session-resumed-without-verified-binder", "secret %s, identity %s: the server context reports session_resumed=%s early_data_accepted=%s (outcome: %s, %r)" % (kn, idn, sv.ctx.session_resumed, sv.ctx.early_data_accepted, outcome, err), case)
            if err is not None and (sv.keys or sv.state != state0):
                ctx.violation("refused-client-hello-installed-keys", "the ClientHello (secret %s, identity %s) was refused with %r but left state %s and keys %r" % (kn, idn, err, sv.state, sv.keys), case)
            if authentic and mn in ("dhe", "ke+dhe") and an == "right" and outcome != "resumed":
                ctx.violation("server-refused-genuine-psk", "the genuine ticket with a verifying binder was not resumed: %s %r" % (outcome, err), case)
            if err is None:
                # the handshake goes on: the reference client must be able to finish it, as a resumption iff the server says so
                try:
                    rc.receive_server_flight(out["INITIAL"])
                    rc.receive_server_flight(out["HANDSHAKE"])
                    sv.feed(rc.finished())
                    if not sv.done():
                        ctx.violation("handshake-after-psk-offer-does-not-complete", "outcome %s: the server did not complete after the reference client's Finished" % outcome, case)
                    elif bool(rc.psk_selected) != bool(sv.ctx.session_resumed):
                        ctx.violation("psk-selection-disagrees", "reference client psk_selected=%s, server session_resumed=%s" % (rc.psk_selected, sv.ctx.session_resumed), case)
                except L.HandshakeError as e:
                    ctx.violation("handshake-after-psk-offer-does-not-complete", "outcome %s: the reference client refused the server's flight: %r" % (outcome, e), case)
            if ctx.want_sample():
                ctx.sample(dict(case, outcome=outcome))
    ctx.extra["exhaustive"] = True



def quic_flight_sequences(ctx, maxlen, part, nparts, adversary, only=None):
    """The same server-flight sequences at the QUIC level: an aioquic client connection (QuicConnection), each handshake message in a datagram of its
    own, all of them handed to receive_datagram before the caller asks for datagrams to send (a caller that drains its socket first).
    adversary 'sent': Finished / CertificateVerify are computed over everything sent; 'accepted': over the messages TLS 1.3 permits at their position
    only (what a client that refuses the others has in its transcript).  Oracle: HandshakeCompleted iff a prefix of the flight is the legal one."""
    from vlib import endpoints as E, tlspeer as TP

    other_key = E.load_key("client.key")
    alphabet = ["EE", "CR", "Cert", "CertEmpty", "CV", "CVbad", "Fin"]
    nxt = {("EE", "EE"): "CR|Cert", ("CR|Cert", "CR"): "Cert", ("CR|Cert", "Cert"): "CV", ("Cert", "Cert"): "CV", ("CV", "CV"): "Fin", ("Fin", "Fin"): "done"}
    i = 0
    for seq in with_early_data_variants(multiset_sequences(alphabet, maxlen)) if only is None else [tuple(only)]:
        if "CV" in seq and "CVbad" in seq:
            continue
        i += 1
        if i % nparts != part and only is None:
            continue
        with E.pinned(("c11-quic-seq", adversary)):
            sp = TP.ServerPeer()
            ref = sp.ref
            ref.receive_client_hello(sp.client_hello)
            sp.send_crypto("initial", ref.server_hello(), pad_to=1200)
            sp.after_server_hello()
            sp.pump_sut()
            st = "EE"
            for sym in seq:
                saved = ref.ks.copy()
                if sym == "EE":
                    m = ref.encrypted_extensions()
                elif sym == "EEed":
                    m = ref.encrypted_extensions(early_data=True)
                elif sym == "CR":
                    m = ref.certificate_request()
                elif sym == "Cert":
                    m = ref.certificate()
                elif sym == "CertEmpty":
                    m = ref.certificate(chain=[])
                elif sym == "CV":
                    m = ref.certificate_verify()
                elif sym == "CVbad":
                    m = ref.certificate_verify(private_key=other_key, algorithm=0x0807)
                else:
                    m = ref.finished()
                to = nxt.get((st, "EE" if sym == "EEed" else sym))
                if to is None:
                    if adversary == "accepted":
                        ref.ks = saved
                else:
                    st = to
                sp.send_crypto("handshake", m)
            sp.pump_sut()
            names = [type(e).__name__ for e in sp.events]
            completed = "HandshakeCompleted" in names
            legal = legal_server_flight(seq, False)
            prefix_legal = any(legal_server_flight(seq[:n], False) for n in range(len(seq) + 1))
            case = {"kind": "qseq", "adversary": adversary, "seq": list(seq)}
            near = edit_distance_one(seq, [("EE", "Cert", "CV", "Fin"), ("EE", "CR", "Cert", "CV", "Fin")])
            ctx.case(("qsf", adversary, seq), nontrivial=near and not legal, classes=["quic-server-flight:" + adversary, "quic-server-flight:" + ("legal" if legal else "illegal")])
            if completed and not prefix_legal:
                ctx.violation(
                    "client-finished-after-illegal-server-flight",
                    "QUIC level: the aioquic client emitted HandshakeCompleted after the server flight %s (one message per datagram, all received before the next datagrams_to_send; MACs over the %s transcript); close state %r" % (list(seq), adversary, sp.sut._close_event),
                    case,
                )
            if legal and not completed:
                ctx.violation("client-refused-legal-server-flight", "QUIC level: the legal flight %s did not complete the handshake (events %s, close %r)" % (list(seq), names, sp.sut._close_event), case)
            if ctx.want_sample():
                ctx.sample(case)
    ctx.extra["exhaustive"] = True



def quic_client_flight_sequences(ctx, maxlen, part, nparts, request, adversary):
    """The client-flight sequences at the QUIC level against an aioquic server connection: one message per datagram, all received before the next
    datagrams_to_send."""
    from vlib import endpoints as E, tlspeer as TP

    other_key = E.load_key("leaf_ed25519.key")
    alphabet = ["Cert", "CertEmpty", "CV", "CVbad", "Fin"]
    legal_list = [("Cert", "CV", "Fin"), ("CertEmpty", "Fin")] if request else [("Fin",)]
    nxt = {("start", "Cert"): "CV", ("start", "CertEmpty"): "Fin", ("CV", "CV"): "Fin", ("Fin", "Fin"): "done"} if request else {("start", "Fin"): "done"}
    i = 0
    for seq in multiset_sequences(alphabet, maxlen):
        if "CV" in seq and "CVbad" in seq:
            continue
        i += 1
        if i % nparts != part:
            continue
        with E.pinned(("c11-quic-cseq", request, adversary)):
            cp = TP.ClientPeer(request_client_cert=request, client_cert=True)
            cp.install_server_cert_request()
            ref = cp.ref
            cp.send_crypto("initial", ref.client_hello(), pad_to=1200)
            cp.pump_sut()
            sh, hs = cp.server_flight()
            ref.receive_server_flight(sh)
            cp.after_server_hello()
            cp.reopen()
            sh, hs = cp.server_flight()
            ref.receive_server_flight(hs)
            cp.after_server_finished()
            st = "start"
            for sym in seq:
                saved = ref.ks.copy()
                if sym == "Cert":
                    m = ref.certificate()
                elif sym == "CertEmpty":
                    m = ref.certificate(chain=[])
                elif sym == "CV":
                    m = ref.certificate_verify()
                elif sym == "CVbad":
                    m = ref.certificate_verify(private_key=other_key, algorithm=0x0807)
                else:
                    m = ref.finished()
                to = nxt.get((st, sym))
                if to is None:
                    if adversary == "accepted":
                        ref.ks = saved
                else:
                    st = to
                cp.send_crypto("handshake", m)
            cp.pump_sut()
            names = [type(e).__name__ for e in cp.events]
            completed = "HandshakeCompleted" in names
            legal = tuple(seq) in legal_list
            prefix_legal = any(tuple(seq[:n]) in legal_list for n in range(len(seq) + 1))
            case = {"kind": "qcseq", "request": request, "adversary": adversary, "seq": list(seq)}
            ctx.case(("qcf", request, adversary, seq), nontrivial=edit_distance_one(tuple(seq), legal_list) and not legal, classes=["quic-client-flight:" + adversary + ("-requested" if request else ""), "quic-client-flight:" + ("legal" if legal else "illegal")])
            if completed and not prefix_legal:
                ctx.violation("server-finished-after-illegal-client-flight", "QUIC level: the aioquic server (client certificate requested: %s) emitted HandshakeCompleted after the client flight %s (one message per datagram, all received before the next datagrams_to_send; MACs over the %s transcript); close state %r" % (request, list(seq), adversary, cp.sut._close_event), case)
            if legal and not completed:
                ctx.violation("server-refused-legal-client-flight", "QUIC level: the legal client flight %s did not complete the handshake (events %s, close %r)" % (list(seq), names, cp.sut._close_event), case)
            if ctx.want_sample():
                ctx.sample(case)
    ctx.extra["exhaustive"] = True



def quic_post_handshake_table(ctx, role):
    """After a real handshake a key-holding peer sends, in a 1-RTT CRYPTO frame, one handshake message of every type byte to a QuicConnection with the
    default configuration: a type TLS 1.3 does not permit after the handshake must close the connection with CRYPTO_ERROR + unexpected_message."""
    from vlib import endpoints as E
    from vlib.takeover import Takeover

    state = "CLIENT_POST_HANDSHAKE" if role == "client" else "SERVER_POST_HANDSHAKE"
    for t in range(256):
        with E.pinned(("c11-quic-post", role)):
            tk = Takeover(role)
            msg = bytes([t, 0, 0, 0]) if t % 2 else bytes([t, 0, 0, 3, 1, 2, 3])
            case = {"kind": "qpost", "role": role, "type": t}
            ctx.case(("qpost", role, t), nontrivial=True, classes=["quic-post-handshake:" + role])
            try:
                tk.send_frames([{"name": "crypto", "offset": 0, "data": msg}])
                tk.cycle()
            except Exception as e:  # noqa - escaping exceptions are C05's subject; here: not refused properly
                ctx.violation("post-handshake-message-raised", "%s: a 1-RTT CRYPTO frame with handshake message type %d made the API raise %r" % (role, t, e), case)
                continue
            ev = tk.sut._close_event
            code = None if ev is None else ev.error_code
            if t in PERMITTED[state]:
                continue  # NewSessionTicket to a client: processed (or refused for its content)
            if t in OPTIONAL.get(state, ()):
                if code is None or not (0x100 <= code <= 0x1FF):
                    ctx.violation("unsupported-post-handshake-message-not-refused", "%s: handshake message type %d after the handshake: close state %r (expected a CRYPTO_ERROR)" % (role, t, ev), case)
                continue
            if code != 0x100 + UNEXPECTED:
                ctx.violation("out-of-order-message-accepted" if code is None else "out-of-order-message-wrong-alert", "%s (QUIC level, default configuration): handshake message type %d in a 1-RTT CRYPTO frame after the handshake: close state %r, expected CRYPTO_ERROR 0x%x (unexpected_message)" % (role, t, ev, 0x100 + UNEXPECTED), case)
        if ctx.want_sample() and t % 64 == 0:
            ctx.sample(case)
    ctx.extra["exhaustive"] = True


def replay(ctx, case):
    k = case.get("kind")
    if k == "table":
        table(ctx, case["state"])
    elif k == "seq":
        server_flight_sequences(ctx, max(len(case["seq"]), 1), 0, 1, case["psk"], case.get("leaf", "ed25519"))
    elif k == "cseq":
        client_flight_sequences(ctx, max(len(case["seq"]), 1), 0, 1, case["request"])
    elif k == "pskch":
        psk_client_hellos(ctx)
    elif k == "qpost":
        quic_post_handshake_table(ctx, case["role"])
    elif k == "qcseq":
        quic_client_flight_sequences(ctx, max(len(case["seq"]), 1), 0, 1, case["request"], case["adversary"])
    elif k == "qseq":
        quic_flight_sequences(ctx, max(len(case["seq"]), 1), 0, 1, case["adversary"], only=case["seq"])


def plan(tier, seed):
    q = tier == "quick"
    t = [("table-%s" % s, {"fn": "table", "state": s}) for s in STATES]
    L = 5 if q else 6
    n = 6 if q else 12
    for p in range(n):
        t.append(("server-flight-len%d-part%d" % (L, p), {"fn": "sf", "maxlen": L, "part": p, "nparts": n, "psk": False}))
    for p in range(2):
        t.append(("server-flight-psk-part%d" % p, {"fn": "sf", "maxlen": 4 if q else 5, "part": p, "nparts": 2, "psk": True}))
    t.append(("server-flight-psk-offered-not-selected", {"fn": "sf", "maxlen": 4 if q else 5, "part": 0, "nparts": 1, "psk": "offered"}))
    for leaf in ("selfsigned", "foreign", "expired", "wrongname"):
        t.append(("server-flight-untrusted-%s" % leaf, {"fn": "sf", "maxlen": 4 if q else 5, "part": 0, "nparts": 1, "psk": False, "leaf": leaf}))
    t.append(("psk-client-hellos", {"fn": "pskch"}))
    for role in ("client", "server"):
        t.append(("quic-post-handshake-%s" % role, {"fn": "qpost", "role": role}))
    for adv in ("sent", "accepted"):
        for p in range(2):
            t.append(("quic-server-flight-%s-part%d" % (adv, p), {"fn": "qsf", "maxlen": 5 if q else 6, "part": p, "nparts": 2, "adversary": adv}))
    for req in (False, True):
        for adv in ("sent", "accepted"):
            t.append(("quic-client-flight-%s-%s" % ("requested" if req else "plain", adv), {"fn": "qcf", "maxlen": 4 if q else 6, "part": 0, "nparts": 1, "request": req, "adversary": adv}))
    for req in (False, True):
        for p in range(2):
            t.append(("client-flight-%s-part%d" % ("requested" if req else "plain", p), {"fn": "cf", "maxlen": 5 if q else 6, "part": p, "nparts": 2, "request": req}))
    return t


def run_task(ctx, name, fn, **kw):
    if fn == "table":
        table(ctx, kw["state"])
    elif fn == "pskch":
        psk_client_hellos(ctx)
    elif fn == "qpost":
        quic_post_handshake_table(ctx, kw["role"])
    elif fn == "qcf":
        quic_client_flight_sequences(ctx, kw["maxlen"], kw["part"], kw["nparts"], kw["request"], kw["adversary"])
    elif fn == "qsf":
        quic_flight_sequences(ctx, kw["maxlen"], kw["part"], kw["nparts"], kw["adversary"])
    elif fn == "sf":
        server_flight_sequences(ctx, kw["maxlen"], kw["part"], kw["nparts"], kw["psk"], kw.get("leaf", "ed25519"))
    else:
        client_flight_sequences(ctx, kw["maxlen"], kw["part"], kw["nparts"], kw["request"])


def finalize(cov, results):
    cov["exhaustive"] = True
    cov["explanation"] = "every task enumerates its (bounded) domain completely: 12 states x 256 types; all sequences with each message at most twice up to the stated length"
