"""C15 - HTTP/3 applications only ever see well-formed messages.

Boundary-alphabet enumeration of names, values, pseudo-header sequences and
content-length spellings, delivered through a literal QPACK encoder, judged by
an independent validator written from the statement, in both directions.
"""
import itertools

PROPERTY = "C15"
LEVEL = "exploration"
RULE = (
    "one evaluation = one header block (or one message with body) fed to a fresh receiving H3Connection through a literal-only "
    "QPACK field section, or through dynamic-table references whose encoder-stream instructions arrive after the block (the stream is "
    "blocked and resumed) or before it; names/values are all strings over the 13-byte boundary alphabet up to the stated length plus "
    "Hypothesis-drawn longer ones; pseudo-header cases are all sequences up to the stated length over "
    "{:method,:scheme,:authority,:path,:status,:protocol,:unknown,regular} in 4 contexts (request, response, trailers, push promise); "
    "content-length cases are spellings x DATA-frame lists x chunkings x trailers. Oracle: independent validator ok(block, context); "
    "delivered => ok, and not ok => no event + close(H3_MESSAGE_ERROR). Non-trivial = the block contains a byte adjacent to a class "
    "boundary (0x20/0x21, 0x40/0x41/0x5a/0x5b, 0x7e/0x7f, ':'), or a pseudo sequence with exactly one rule broken, or a body whose "
    "length differs from the declared one by at most 1; distinct by the case itself."
)
ASSUMPTIONS = [
    "blocks that are well-formed by the statement but refused for additional reasons (missing :authority, empty :path, transfer-encoding, empty name) are accepted either way",
    "content-length values that are not 1*DIGIT are accepted either way; several content-length fields are accepted either way",
    "the literal and dynamic-table QPACK encoders of vlib/h3bench.py are trusted (their output is decoded by pylsqpack, not by the harness)",
]

A = [0x00, 0x09, 0x0A, 0x0D, 0x20, 0x21, 0x3A, 0x41, 0x5A, 0x61, 0x7F, 0x80, 0xFF]
EDGE = {0x20, 0x21, 0x40, 0x41, 0x5A, 0x5B, 0x7E, 0x7F, 0x3A}
MESSAGE_ERROR = 0x10E

ALLOWED = {
    "request": {b":method", b":scheme", b":authority", b":path", b":protocol"},
    "response": {b":status"},
    "trailers": set(),
    "push": {b":method", b":scheme", b":authority", b":path"},
}
REQUIRED = {"request": {b":method"}, "response": {b":status"}, "trailers": set(), "push": {b":method"}}


# ---- the independent validator (from the statement)


def name_ok(n):
    for i, c in enumerate(n):
        if c <= 0x20 or c >= 0x7F or 0x41 <= c <= 0x5A:
            return False
        if c == 0x3A and i != 0:
            return False
    return True


def value_ok(v):
    if any(c in (0x00, 0x0A, 0x0D) for c in v):
        return False
    if v and (v[0] in (0x20, 0x09) or v[-1] in (0x20, 0x09)):
        return False
    return True


def block_ok(headers, context):
    seen = set()
    after = False
    for n, v in headers:
        if not name_ok(n) or not value_ok(v):
            return False
        if n.startswith(b":"):
            if after or n not in ALLOWED[context] or n in seen:
                return False
            seen.add(n)
        else:
            after = True
    return REQUIRED[context] <= seen


def extra_refusal_possible(headers, context):
    """Reasons beyond the statement for which a well-formed block may still be refused."""
    d = {}
    for n, v in headers:
        d.setdefault(n, []).append(v)
    if any(n == b"" for n, _ in headers):
        return True
    if b"transfer-encoding" in d:
        return True
    if b"content-length" in d:
        return True  # spelling rules are outside the statement
    if context in ("request", "push"):
        return True  # :authority / :path / :scheme requirements are stricter than the statement
    return False


BASE = {
    "request": [(b":method", b"GET"), (b":scheme", b"https"), (b":authority", b"a"), (b":path", b"/")],
    "response": [(b":status", b"200")],
    "trailers": [],
    "push": [(b":method", b"GET"), (b":scheme", b"https"), (b":authority", b"a"), (b":path", b"/")],
}


MODES = ("literal", "dynamic-blocked", "dynamic-ready")


def run_block(headers, context, mode="literal"):
    """Feed one block in the given context; returns (delivered_headers or None, closed).
    mode: literal field lines | every field a dynamic-table reference, the field section arriving before (the stream is blocked and resumed later)
    or after the encoder stream instructions it depends on"""
    from aioquic.h3.connection import FrameType
    from aioquic.h3 import events as E
    from vlib import h3bench as B

    enc = None
    if mode == "literal":
        fs = B.qpack_literal(headers)
    else:
        enc, fs = B.qpack_dynamic(headers)
    if context == "request":
        plan = [(0, B.frame(FrameType.HEADERS, fs), False)]
        is_client = False
    elif context == "response":
        plan = [(0, B.frame(FrameType.HEADERS, fs), False)]
        is_client = True
    elif context == "trailers":
        plan = [
            (0, B.frame(FrameType.HEADERS, B.qpack_literal(BASE["request"])), False),
            (0, B.frame(FrameType.HEADERS, fs), False),
        ]
        is_client = False
    else:
        plan = [(0, B.frame(FrameType.PUSH_PROMISE, B.varint(0) + fs), False)]
        is_client = True
    if enc is not None:
        item = (7 if is_client else 6, b"\x02" + enc, False)
        if mode == "dynamic-blocked":
            plan.append(item)
        else:
            plan.insert(len(plan) - 1, item)
    evs, q, _ = B.deliver(plan, is_client)
    got = None
    hdr_events = [e for e in evs if isinstance(e, (E.HeadersReceived, E.PushPromiseReceived))]
    if context == "trailers":
        hdr_events = hdr_events[1:]
    if hdr_events:
        got = [(bytes(n), bytes(v)) for n, v in hdr_events[0].headers]
    return got, q.closed


def judge(ctx, headers, context, nontrivial, cls, modes=("literal",)):
    for mode in modes:
        judge_mode(ctx, headers, context, nontrivial, cls, mode)


def judge_mode(ctx, headers, context, nontrivial, cls, mode):
    if not headers:
        # an empty field section is refused by the QPACK decoder (pylsqpack) before any
        # HTTP validation can run: not a "message" in the sense of the statement
        ctx.cls("empty-block-out-of-domain")
        return
    if mode != "literal" and sum(len(n) + len(v) + 32 for n, v in headers) > 4096:
        return  # does not fit the dynamic table
    got, closed = run_block(headers, context, mode)
    if got is None and closed is not None and closed[0] in (0x200, 0x201):
        # refused by the QPACK decoder (pylsqpack: e.g. empty field name): never became a message
        ctx.cls("qpack-decoder-refused(out of domain)")
        return
    good = block_ok(headers, context)
    case = {"kind": "block", "context": context, "headers": headers, "mode": mode}
    ctx.case((context, tuple(headers), mode), nontrivial=nontrivial, classes=[cls, "%s:%s" % (context, "ok" if good else "bad"), "qpack:" + mode])
    if got is not None:
        if not block_ok(got, context):
            ctx.violation("malformed-block-delivered-" + context, "application received %r in context %s" % (got, context), case)
        if got != list(headers):
            ctx.violation("delivered-block-differs", "sent %r, application received %r" % (headers, got), case)
    if not good:
        if got is not None:
            return
        if closed is None or closed[0] != MESSAGE_ERROR:
            ctx.violation(
                "malformed-block-not-message-error-" + context,
                "block %r in context %s: no event but connection close state is %r (expected H3_MESSAGE_ERROR 0x10e)" % (headers, context, closed),
                case,
            )
    else:
        if got is None:
            if not extra_refusal_possible(headers, context):
                ctx.violation("wellformed-block-refused-" + context, "block %r in context %s was refused: %r" % (headers, context, closed), case)
            elif closed is None:
                ctx.violation("block-neither-delivered-nor-refused", "block %r in context %s: no event and no close" % (headers, context), case)


def edge(bs):
    return any(c in EDGE for c in bs)


# ---- tasks


def names_values(ctx, L, part, nparts):
    i = 0
    for ln in range(1, L + 1):
        for t in itertools.product(A, repeat=ln):
            i += 1
            if i % nparts != part:
                continue
            s = bytes(t)
            for context in ("request", "response", "trailers", "push"):
                if context != "request" and ln > 2 and (i // nparts) % 4:
                    continue
                modes = MODES if ln <= 2 else ("literal", MODES[1 + i % 2]) if (i // nparts) % 3 == 0 else ("literal",)
                judge(ctx, BASE[context] + [(s, b"v")], context, edge(s), "name-len%d" % ln, modes)
                judge(ctx, BASE[context] + [(b"x", s)], context, edge(s) or s[0] in (0x20, 9) or s[-1] in (0x20, 9), "value-len%d" % ln, modes)
            if ctx.want_sample():
                ctx.sample({"context": "request", "headers": BASE["request"] + [(s, b"v")]})
    # fixed extras: empty name / empty value / upper-case inside long names
    for context in ("request", "response", "trailers"):
        judge(ctx, BASE[context] + [(b"x", b"")], context, True, "value-empty", MODES)
        judge(ctx, BASE[context] + [(b"", b"v")], context, True, "name-empty", MODES)
        for nm in (b"content-Type", b"x-\x7f", b"x y", b"x:y", b"x-\xc3\xa9", b"accept", b"Z", b"[", b"@", b"`", b"~"):
            judge(ctx, BASE[context] + [(nm, b"v")], context, True, "name-fixed", MODES)
        for v in (b"a b", b"a\tb", b" a", b"a ", b"\ta", b"a\t", b"a\x00b", b"a\rb", b"a\nb", b"\x7f", b"\x80\xff", b" "):
            judge(ctx, BASE[context] + [(b"x", v)], context, True, "value-fixed", MODES)


PSEUDO = [
    (b":method", b"GET"),
    (b":scheme", b"https"),
    (b":authority", b"a"),
    (b":path", b"/"),
    (b":status", b"200"),
    (b":protocol", b"websocket"),
    (b":unknown", b"u"),
    (b"x-regular", b"r"),
    # regular headers that the implementation singles out for semantic checks of their own
    (b"content-length", b"0"),
]


def rules_broken(seq, context):
    n = 0
    names = [k for k, _ in seq]
    after = False
    order = False
    for k in names:
        if k.startswith(b":"):
            if after:
                order = True
        else:
            after = True
    n += order
    ps = [k for k in names if k.startswith(b":")]
    n += len(ps) != len(set(ps))
    n += any(k not in ALLOWED[context] for k in ps)
    n += not (REQUIRED[context] <= set(ps))
    return n


def pseudo_sequences(ctx, L, part, nparts):
    i = 0
    for ln in range(0, L + 1):
        for seq in itertools.product(PSEUDO, repeat=ln):
            i += 1
            if i % nparts != part:
                continue
            for context in ("request", "response", "trailers", "push"):
                judge(ctx, list(seq), context, rules_broken(seq, context) == 1, "pseudo-len%d" % ln, MODES if ln <= 3 else ("literal", MODES[1 + i % 2]))
            if ctx.want_sample():
                ctx.sample({"context": "response", "headers": list(seq)})


SPELLINGS = [b"0", b"5", b"05", b"00", b"5 5", b"+5", b"-0", b"-1", b"5,5", b"0x5", b"5_0", "٥".encode(), b"", b"4", b"6", b"18446744073709551621", b"1e1"]


def content_length_cases(ctx, part, nparts, deep):
    from aioquic.h3.connection import FrameType
    from aioquic.h3 import events as E
    from vlib import h3bench as B

    bodies = [[], [0], [5], [4], [6], [2, 3], [0, 5], [5, 0], [1, 0, 4], [3, 3], [0, 0], [5, 1], [2, 2]]
    i = 0
    for sp in SPELLINGS:
        for body in bodies:
            for trailers in (False, True):
                for role in ("request", "response", "push"):
                    for endmode in ("fin-with-last", "lone-fin", "headers-end" if not body and not trailers else None):
                        if endmode is None:
                            continue
                        i += 1
                        if i % nparts != part:
                            continue
                        hdrs = BASE["response" if role == "push" else role] + [(b"content-length", sp)]
                        # (push: a pushed response on a server-initiated unidirectional stream of type 0x01 with push ID 0)
                        sid = 15 if role == "push" else 0
                        data = (B.varint(1) + B.varint(0) if role == "push" else b"") + B.frame(FrameType.HEADERS, B.qpack_literal(hdrs))
                        total = 0
                        for n in body:
                            data += B.frame(FrameType.DATA, bytes(range(total, total + n)))
                            total += n
                        if trailers:
                            data += B.frame(FrameType.HEADERS, B.qpack_literal([(b"x-t", b"1")]))
                        digits = len(sp) > 0 and all(0x30 <= c <= 0x39 for c in sp)
                        declared = int(sp) if digits else None
                        chunkings = [[data]]
                        if deep:
                            cuts = sorted({1, 2, len(data) // 2, len(data) - 1} - {0, len(data)})
                            chunkings += [[data[:c], data[c:]] for c in cuts if 0 < c < len(data)]
                            chunkings.append([data[k : k + 1] for k in range(len(data))])
                        for chunks in chunkings:
                            plan = [(sid, c, False) for c in chunks]
                            if endmode == "lone-fin":
                                plan.append((sid, b"", True))
                            else:
                                plan[-1] = (sid, plan[-1][1], True)
                            evs, q, _ = B.deliver(plan, is_client=(role != "request"))
                            got_len = sum(len(e.data) for e in evs if isinstance(e, E.DataReceived))
                            ended = any(getattr(e, "stream_ended", False) for e in evs if isinstance(e, (E.DataReceived, E.HeadersReceived)))
                            got_headers = any(isinstance(e, E.HeadersReceived) for e in evs)
                            case = {"kind": "content-length", "role": role, "spelling": sp, "body": body, "trailers": trailers, "end": endmode, "chunks": [len(c) for c in chunks]}
                            near = declared is not None and abs(declared - total) <= 1
                            ctx.case((sp, tuple(body), trailers, role, endmode, tuple(len(c) for c in chunks)), nontrivial=near, classes=["content-length:" + ("digits" if digits else "other-spelling")])
                            if ctx.want_sample():
                                ctx.sample(case)
                            if declared is None:
                                continue
                            if ended and got_len != declared:
                                ctx.violation("content-length-mismatch-delivered", "stream ended with %d body bytes delivered, content-length %r" % (got_len, sp), case)
                            if declared != total:
                                if ended:
                                    continue
                                if q.closed is None or q.closed[0] != MESSAGE_ERROR:
                                    ctx.violation("content-length-mismatch-not-message-error", "declared %r, body %d bytes: close state %r" % (sp, total, q.closed), case)
                            else:
                                if not ended or q.closed is not None:
                                    ctx.violation("content-length-match-refused", "declared %r equals body %d but ended=%s closed=%r" % (sp, total, ended, q.closed), case)


def random_blocks(ctx, examples, shard):
    from hypothesis import strategies as st
    from vlib.harness import run_hypothesis

    byte = st.one_of(st.sampled_from(A + [0x40, 0x5B, 0x7E, 0x60, 0x2D, 0x30]), st.integers(0, 255))
    name = st.one_of(
        st.binary(min_size=0, max_size=3),
        st.lists(byte, min_size=1, max_size=40).map(bytes),
        st.sampled_from([b"accept", b"content-type", b"x-custom", b"te", b"cookie"]),
        st.tuples(st.sampled_from([b"accept", b"x-custom-header"]), st.integers(0, 14), byte).map(lambda t: t[0][: t[1]] + bytes([t[2]]) + t[0][t[1] :]),
    )
    value = st.one_of(
        st.lists(byte, min_size=0, max_size=60).map(bytes),
        st.sampled_from([b"v", b"text/html", b"a b"]),
        st.tuples(st.sampled_from([b"some value", b"x"]), st.integers(0, 10), byte).map(lambda t: t[0][: t[1]] + bytes([t[2]]) + t[0][t[1] :]),
    )
    field = st.one_of(st.tuples(name, value), st.sampled_from(PSEUDO))
    strat = st.tuples(st.sampled_from(["request", "response", "trailers", "push"]), st.booleans(), st.lists(field, min_size=0, max_size=6), st.sampled_from(MODES))

    def body(ctx, v):
        context, with_base, fields, mode = v
        headers = (BASE[context] if with_base else []) + [(bytes(n), bytes(val)) for n, val in fields]
        nt = any(edge(n) or edge(val) for n, val in fields)
        judge(ctx, headers, context, nt, "random-block", (mode,))
        if ctx.want_sample():
            ctx.sample({"context": context, "headers": headers})

    run_hypothesis(ctx, body, strat, examples, shard=shard)


def replay(ctx, case):
    if case["kind"] == "block":
        headers = [(bytes(n), bytes(v)) for n, v in case["headers"]]
        judge(ctx, headers, case["context"], True, "replay", (case.get("mode", "literal"),))
    else:
        # re-run the whole content-length family (cheap) -- the case names the failing member
        content_length_cases(ctx, 0, 1, True)


def plan(tier, seed):
    t = []
    L = 3 if tier == "quick" else 4
    n = 6 if tier == "quick" else 10
    for p in range(n):
        t.append(("names-values-L%d-part%d" % (L, p), {"fn": "nv", "L": L, "part": p, "nparts": n}))
    PL = 4 if tier == "quick" else 5
    for p in range(4):
        t.append(("pseudo-seq-L%d-part%d" % (PL, p), {"fn": "ps", "L": PL, "part": p, "nparts": 4}))
    for p in range(2):
        t.append(("content-length-part%d" % p, {"fn": "cl", "part": p, "nparts": 2, "deep": True}))
    for s in range(4 if tier == "quick" else 6):
        t.append(("random-blocks-%d" % s, {"fn": "rb", "examples": 1500 if tier == "quick" else 40000, "shard": s}))
    return t


def run_task(ctx, name, fn, **kw):
    if fn == "nv":
        names_values(ctx, kw["L"], kw["part"], kw["nparts"])
        ctx.extra["exhaustive"] = True
    elif fn == "ps":
        pseudo_sequences(ctx, kw["L"], kw["part"], kw["nparts"])
        ctx.extra["exhaustive"] = True
    elif fn == "cl":
        content_length_cases(ctx, kw["part"], kw["nparts"], kw["deep"])
        ctx.extra["exhaustive"] = True
    else:
        random_blocks(ctx, kw["examples"], kw["shard"])
