PROPERTY = "C12"
LEVEL = "exploration"
from vlib.simprops import RULES, ASSUMPTIONS_FOR
RULE = RULES["C12"]
ASSUMPTIONS = ASSUMPTIONS_FOR["C12"]


RULE = RULE + (
    " Additionally (task many-ranges): one evaluation = a key-holding peer sends, after a real handshake, a generated pattern of ack-eliciting 1-RTT packets "
    "with generated packet-number gaps (up to several hundred separate ranges, far more than fit into one ACK frame), never acknowledging the endpoint's own "
    "packets so that nothing is pruned, in generated bursts between which the endpoint's ACK timer is allowed to fire; every ACK frame the endpoint emits "
    "(decrypted wire) must list only packet numbers that were sent to it, and after every burst the highest number delivered so far must be covered by an "
    "ACK frame sent within max_ack_delay (25 ms) of its arrival. Task arrival-timing: one evaluation = runs of ack-eliciting (PING, STREAM) and "
    "padding-only packets arriving with generated gaps from 0.1 ms to 40 ms (runs of up to 120 packets, so sub-millisecond streams last longer than the "
    "advertised delay), handle_timer called exactly at the times get_timer names: every ack-eliciting packet that carried the highest number so far is "
    "covered by an ACK frame sent within the advertised max_ack_delay of its arrival."
)


def many_ranges_case(ctx, case):
    from vlib import endpoints as E
    from vlib.takeover import Takeover

    with E.pinned(("c12-ranges", case["role"], case["mds"])):
        tk = Takeover(case["role"], client_kw={"max_datagram_size": case["mds"]}, server_kw={"max_datagram_size": case["mds"]})
        sent = set()
        pn = tk.pn + 3
        max_ranges = 0
        for burst in case["bursts"]:
            top = None
            for gap, run in burst:
                pn += gap
                for _ in range(run):
                    tk.send_frames([{"name": "ping"}], pn=pn)
                    sent.add(pn)
                    top = pn
                    pn += 1
                pn += 1  # at least one number is skipped between runs
            arrival = tk.now
            views = list(tk.collect())
            # let the ACK timer fire (the caller loop of the Sans-IO API), but not beyond the advertised delay
            for _ in range(3):
                t = tk.sut.get_timer()
                if t is None or t > arrival + 0.025 + 1e-6:
                    break
                tk.now = max(tk.now, t) + 0.0005
                tk.sut.handle_timer(now=tk.now)
                tk.drain_events()
                views += list(tk.collect())
            acked_now = set()
            for v in views:
                for f in v.frames or []:
                    if f["name"] == "ack" and v.space == "app":
                        max_ranges = max(max_ranges, len(f["acked"]))
                        for lo, hi in f["acked"]:
                            if hi - lo > 100000:
                                ctx.violation("ack-lists-packets-never-sent", "%s acknowledges the range %d..%d" % (case["role"], lo, hi), case)
                                return
                            for p in range(lo, hi + 1):
                                if p >= tk.pn and p not in sent:
                                    ctx.violation("ack-lists-packets-never-sent", "%s acknowledges packet %d which was never sent to it (ranges %r)" % (case["role"], p, f["acked"][:5]), case)
                                    return
                                acked_now.add(p)
            if top is not None and top not in acked_now and tk.terminated is None and tk.sut._close_event is None:
                ctx.violation("highest-packet-not-acknowledged-within-max-ack-delay", "%s: packet %d (highest so far, ack-eliciting) arrived at t=%.4f and is in no ACK frame sent up to t=%.4f; %d ranges are outstanding" % (case["role"], top, arrival, tk.now, len(tk.sut._spaces[max(tk.sut._spaces, key=lambda e: e.value)].ack_queue)), case)
                return
        ctx.case(("ranges", repr(case)), nontrivial=max_ranges > 1, classes=["ranges:" + case["role"], "ranges:max>=%d" % (64 if max_ranges >= 64 else 8 if max_ranges >= 8 else 0)])


def many_ranges_task(ctx, examples, shard):
    from hypothesis import strategies as st
    from vlib.harness import run_hypothesis

    run = st.tuples(st.sampled_from([0, 0, 1, 3, 50]), st.sampled_from([1, 1, 1, 2, 5]))
    burst = st.one_of(st.lists(run, min_size=1, max_size=12), st.lists(run, min_size=60, max_size=160), st.lists(st.just((0, 1)), min_size=70, max_size=300))
    strat = st.fixed_dictionaries({"kind": st.just("ranges"), "role": st.sampled_from(["server", "client"]), "mds": st.sampled_from([1200, 1280, 1452]), "bursts": st.lists(burst, min_size=1, max_size=4)})

    def body(ctx, case):
        many_ranges_case(ctx, case)
        if ctx.want_sample():
            ctx.sample({"role": case["role"], "mds": case["mds"], "bursts": [len(b) for b in case["bursts"]]})

    run_hypothesis(ctx, body, strat, examples, shard=shard)


def arrival_timing_case(ctx, case):
    """Ack-eliciting 1-RTT packets from a key-holding peer arrive with generated gaps (0.1 ms .. 40 ms, in runs); the caller does what the Sans-IO
    contract asks: datagrams_to_send after every arrival, handle_timer at exactly the time get_timer names.  Every ack-eliciting packet that carried the
    highest number so far must be covered by an ACK frame sent no later than max_ack_delay (advertised by the endpoint) after its arrival."""
    from vlib import endpoints as E, refquic as R
    from vlib.takeover import Takeover, sut_transport_parameters

    with E.pinned(("c12-arrivals", case["role"])):
        tk = Takeover(case["role"])
        tp = sut_transport_parameters(tk) or {}
        max_ack_delay = tp.get("max_ack_delay", 25) / 1000.0
        sut = tk.sut
        arrivals = {}  # pn -> arrival time, for ack-eliciting packets that were the highest so far
        first_ack = {}  # pn -> time of the first ACK frame covering it
        sent = set()
        top = tk.pn - 1
        # the peer may move to a new address (server SUT): until the server has validated it, what it may send there is bounded by three times
        # what it received from there - an acknowledgement that does not fit the budget cannot be demanded
        move = case.get("move") if case["role"] == "server" else None
        new_addr = ("203.0.113.9", 4499)
        src = [tk.peer_addr]
        rx_new = [0]
        tx_new = [0]
        validated = [False]
        budget_log = []  # (time, bytes the server may still send to the new address while it is not validated), taken each time the server has had its turn to send
        challenges = []
        NEED = 120  # an ACK-bearing short-header packet fits comfortably (aioquic wants 64 bytes for the frame + 11 header + 16 tag)

        def note_budget():
            if src[0] == new_addr:
                budget_log.append((tk.now, float("inf") if validated[0] else 3 * rx_new[0] - tx_new[0]))

        def look():
            for v in tk.collect():
                if v.dest == new_addr:
                    tx_new[0] += v.size
                for f in v.frames or []:
                    if f["name"] == "ack" and v.space == "app":
                        for lo, hi in f["acked"]:
                            for p in sent:
                                if lo <= p <= hi:
                                    first_ack.setdefault(p, tk.now)
                    elif f["name"] == "path_challenge" and v.dest == new_addr:
                        challenges.append(bytes(f["data"]))
            note_budget()

        def run_until(t_end):
            # fire every timer the endpoint asks for up to t_end, at the time it names
            for _ in range(400):
                t = sut.get_timer()
                if t is None or t > t_end:
                    break
                tk.now = max(tk.now, t)
                sut.handle_timer(now=tk.now)
                tk.drain_events()
                look()
            tk.now = max(tk.now, t_end)

        if case.get("bulk"):
            # the endpoint has a congestion window's worth of data in flight that nobody acknowledges: acknowledgements are not congestion
            # controlled and remain due
            sid = sut.get_next_available_stream_id()
            sut.send_stream_data(sid, bytes(case["bulk"]))
            look()
        pn = tk.pn + 1
        for ri, (gap, count, kind) in enumerate(case["runs"]):
            if move and ri == move["at"]:
                src[0] = new_addr
            for _ in range(count):
                run_until(tk.now + gap)
                if sut._close_event is not None:
                    break
                frames = [{"name": "ping"}] if kind == "ping" else [{"name": "stream", "stream_id": 0 if case["role"] == "server" else 1, "offset": 0, "data": b"", "fin": False}] if kind == "stream" else [{"name": "path_challenge", "data": pn.to_bytes(8, "big")}] if kind == "challenge" else [{"name": "padding"}]
                eliciting = kind != "padding"
                if move and src[0] == new_addr:
                    if move["pad"]:
                        frames = frames + [{"name": "padding"}] * move["pad"]
                    if move["respond"] and challenges:
                        # the answer to the endpoint's path challenge: together with the frames of this packet, or in a packet of its own
                        # (PATH_RESPONSE is ack-eliciting like any frame other than ACK, PADDING and CONNECTION_CLOSE)
                        resp = {"name": "path_response", "data": challenges.pop()}
                        frames = [resp] if move["respond"] == "alone" else frames + [resp]
                        eliciting = True
                        validated[0] = True
                pkt, _ = tk.build_packet(R.encode_frames(frames), pn=pn, pn_len=2)
                sut.receive_datagram(pkt, src[0], now=tk.now)
                if src[0] == new_addr:
                    rx_new[0] += len(pkt)
                sent.add(pn)
                if eliciting and pn > top:
                    arrivals[pn] = tk.now
                top = max(top, pn)
                pn += 1
                tk.drain_events()
                look()
        run_until(tk.now + 0.2)
        late = []
        waived = 0
        for p, ta in sorted(arrivals.items()):
            ts = first_ack.get(p)
            if ts is None or ts > ta + max_ack_delay + 1e-6:
                if budget_log and ta + max_ack_delay >= budget_log[0][0]:
                    # the peer moved before the acknowledgement was due: acknowledgements travel to the new, unvalidated address, and the delay
                    # counts from the first moment at which the budget for that address allowed one
                    ok_from = next((t for t, b in budget_log if t >= ta and b >= NEED), None)
                    if ok_from is None or (ts is not None and ts <= ok_from + max_ack_delay + 1e-6):
                        waived += 1
                        continue
                late.append((p, ta, ts))
        if late and sut._close_event is None:
            p, ta, ts = late[0]
            ctx.violation(
                "ack-later-than-advertised-max-ack-delay",
                "%s: ack-eliciting packet %d (highest so far) arrived at t=%.4f; %s; the endpoint advertised max_ack_delay=%.0f ms; %d of %d such packets were acknowledged late; timers were fired exactly when asked" % (case["role"], p, ta, "first ACK covering it sent at t=%.4f (%.1f ms later)" % (ts, (ts - ta) * 1000) if ts is not None else "never acknowledged", max_ack_delay * 1000, len(late), len(arrivals)),
                case,
            )
        span = max((c * g for g, c, k in case["runs"] if g < 0.001), default=0)
        ctx.case(("arrivals", repr(case)), nontrivial=len(arrivals) >= 20, classes=["arrivals:" + case["role"], "arrivals:sub-ms-run-longer-than-max-ack-delay" if span > max_ack_delay else "arrivals:short-runs"] + (["arrivals:peer-moved" + ("-and-answers-challenge" if move["respond"] else "-never-validated")] if move and budget_log else []) + (["arrivals:ack-waived-for-amplification-budget"] if waived else []))


def arrival_timing_task(ctx, examples, shard):
    from hypothesis import strategies as st
    from vlib.harness import run_hypothesis

    run = st.tuples(st.sampled_from([0.0001, 0.0004, 0.0009, 0.00099, 0.001, 0.0011, 0.003, 0.012, 0.04]), st.sampled_from([1, 3, 10, 40, 120]), st.sampled_from(["ping", "ping", "stream", "padding", "challenge"]))
    move = st.one_of(st.none(), st.fixed_dictionaries({"at": st.integers(0, 3), "respond": st.sampled_from([False, True, "alone"]), "pad": st.sampled_from([0, 0, 10, 40, 150])}))
    strat = st.fixed_dictionaries({"kind": st.just("arrivals"), "role": st.sampled_from(["server", "client"]), "runs": st.lists(run, min_size=1, max_size=6), "move": move, "bulk": st.sampled_from([0, 0, 3000, 40000, 200000])})
    # a peer that moves and then sends little: one or two small ack-eliciting packets, then packets that elicit nothing (the budget for the new address
    # grows while an acknowledgement is owed)
    gap = st.sampled_from([0.0001, 0.0009, 0.003, 0.012, 0.04])
    small = st.tuples(
        st.lists(run, max_size=1), gap, st.sampled_from([1, 1, 2]), st.sampled_from(["ping", "stream"]), gap, st.sampled_from([1, 2, 5, 20]), st.lists(run, max_size=2), st.sampled_from([False, True, "alone", "alone"]), st.sampled_from([0, 0, 3, 8, 20, 60])
    ).map(lambda t: {"kind": "arrivals", "role": "server", "runs": t[0] + [(t[1], t[2], t[3]), (t[4], t[5], "padding")] + t[6], "move": {"at": len(t[0]), "respond": t[7], "pad": t[8]}})
    # a peer that probes a new path before using it (RFC 9000 section 9.1): the first packets from the new address carry only PATH_CHALLENGE and
    # padding - ack-eliciting, highest number so far, and not a reason to move the active path
    probe = st.tuples(st.lists(run, max_size=1), gap, st.sampled_from([1, 2, 3]), st.sampled_from([False, False, True, "alone"]), st.sampled_from([40, 150, 300]), st.lists(run, max_size=1)).map(
        lambda t: {"kind": "arrivals", "role": "server", "runs": t[0] + [(t[1], t[2], "challenge")] + t[5], "move": {"at": len(t[0]), "respond": t[3], "pad": t[4]}}
    )
    strat = st.one_of(strat, strat, small, probe)

    def body(ctx, case):
        arrival_timing_case(ctx, case)
        if ctx.want_sample():
            ctx.sample(case)

    run_hypothesis(ctx, body, strat, examples, shard=shard)


def plan(tier, seed):
    from vlib import simchecks

    t = simchecks.plan_for("C12", tier, seed)
    for s in range(2):
        t.append(("many-ranges-%d" % s, {"fn": "ranges", "examples": 40 if tier == "quick" else 3000, "shard": s}))
    for s in range(2):
        t.append(("arrival-timing-%d" % s, {"fn": "arrivals", "examples": 60 if tier == "quick" else 4000, "shard": s}))
    return t


def run_task(ctx, name, fn, **kw):
    from vlib import simchecks

    if fn == "ranges":
        return many_ranges_task(ctx, kw["examples"], kw["shard"])
    if fn == "arrivals":
        return arrival_timing_task(ctx, kw["examples"], kw["shard"])
    simchecks.run_task(ctx, "C12", name, fn, **kw)


def replay(ctx, case):
    from vlib import simchecks

    if case.get("kind") == "ranges":
        return many_ranges_case(ctx, dict(case, bursts=[[tuple(r) for r in b] for b in case["bursts"]]))
    if case.get("kind") == "arrivals":
        return arrival_timing_case(ctx, dict(case, runs=[tuple(r) for r in case["runs"]]))
    simchecks.replay(ctx, case, "C12")
