PROPERTY = "C12"
LEVEL = "exploration"
from vlib.simprops import RULES, ASSUMPTIONS_FOR
RULE = RULES["C12"]
ASSUMPTIONS = ASSUMPTIONS_FOR["C12"]


RULE = RULE + (
    " Additionally (task many-ranges): one evaluation = a key-holding peer sends, after a real handshake, a generated pattern of ack-eliciting 1-RTT packets "
    "with generated packet-number gaps (up to several hundred separate ranges, far more than fit into one ACK frame), never acknowledging the endpoint's own "
    "packets so that nothing is pruned, in generated bursts between which the endpoint's ACK timer is allowed to fire; every ACK frame the endpoint emits "
    "(decrypted wire) must list only packet numbers that were sent to it, and after every burst the highest number delivered so far must be covered by an "
    "ACK frame sent within max_ack_delay (25 ms) of its arrival."
)


def many_ranges_case(ctx, case):
    from vlib import endpoints as E
    from vlib.takeover import Takeover

    with E.pinned(("c12-ranges", case["role"], case["mds"])):
        tk = Takeover(case["role"], client_kw={"max_datagram_size": case["mds"]}, server_kw={"max_datagram_size": case["mds"]})
        sent = set()
        pn = tk.pn + 3
        max_ranges = 0
        for burst in case["bursts"]:
            top = None
            for gap, run in burst:
                pn += gap
                for _ in range(run):
                    tk.send_frames([{"name": "ping"}], pn=pn)
                    sent.add(pn)
                    top = pn
                    pn += 1
                pn += 1  # at least one number is skipped between runs
            arrival = tk.now
            views = list(tk.collect())
            # let the ACK timer fire (the caller loop of the Sans-IO API), but not beyond the advertised delay
            for _ in range(3):
                t = tk.sut.get_timer()
                if t is None or t > arrival + 0.025 + 1e-6:
                    break
                tk.now = max(tk.now, t) + 0.0005
                tk.sut.handle_timer(now=tk.now)
                tk.drain_events()
                views += list(tk.collect())
            acked_now = set()
            for v in views:
                for f in v.frames or []:
                    if f["name"] == "ack" and v.space == "app":
                        max_ranges = max(max_ranges, len(f["acked"]))
                        for lo, hi in f["acked"]:
                            if hi - lo > 100000:
                                ctx.violation("ack-lists-packets-never-sent", "%s acknowledges the range %d..%d" % (case["role"], lo, hi), case)
                                return
                            for p in range(lo, hi + 1):
                                if p >= tk.pn and p not in sent:
                                    ctx.violation("ack-lists-packets-never-sent", "%s acknowledges packet %d which was never sent to it (ranges %r)" % (case["role"], p, f["acked"][:5]), case)
                                    return
                                acked_now.add(p)
            if top is not None and top not in acked_now and tk.terminated is None and tk.sut._close_event is None:
                ctx.violation("highest-packet-not-acknowledged-within-max-ack-delay", "%s: packet %d (highest so far, ack-eliciting) arrived at t=%.4f and is in no ACK frame sent up to t=%.4f; %d ranges are outstanding" % (case["role"], top, arrival, tk.now, len(tk.sut._spaces[max(tk.sut._spaces, key=lambda e: e.value)].ack_queue)), case)
                return
        ctx.case(("ranges", repr(case)), nontrivial=max_ranges > 1, classes=["ranges:" + case["role"], "ranges:max>=%d" % (64 if max_ranges >= 64 else 8 if max_ranges >= 8 else 0)])


def many_ranges_task(ctx, examples, shard):
    from hypothesis import strategies as st
    from vlib.harness import run_hypothesis

    run = st.tuples(st.sampled_from([0, 0, 1, 3, 50]), st.sampled_from([1, 1, 1, 2, 5]))
    burst = st.one_of(st.lists(run, min_size=1, max_size=12), st.lists(run, min_size=60, max_size=160), st.lists(st.just((0, 1)), min_size=70, max_size=300))
    strat = st.fixed_dictionaries({"kind": st.just("ranges"), "role": st.sampled_from(["server", "client"]), "mds": st.sampled_from([1200, 1280, 1452]), "bursts": st.lists(burst, min_size=1, max_size=4)})

    def body(ctx, case):
        many_ranges_case(ctx, case)
        if ctx.want_sample():
            ctx.sample({"role": case["role"], "mds": case["mds"], "bursts": [len(b) for b in case["bursts"]]})

    run_hypothesis(ctx, body, strat, examples, shard=shard)


def plan(tier, seed):
    from vlib import simchecks

    t = simchecks.plan_for("C12", tier, seed)
    for s in range(2):
        t.append(("many-ranges-%d" % s, {"fn": "ranges", "examples": 40 if tier == "quick" else 3000, "shard": s}))
    return t


def run_task(ctx, name, fn, **kw):
    from vlib import simchecks

    if fn == "ranges":
        return many_ranges_task(ctx, kw["examples"], kw["shard"])
    simchecks.run_task(ctx, "C12", name, fn, **kw)


def replay(ctx, case):
    from vlib import simchecks

    if case.get("kind") == "ranges":
        return many_ranges_case(ctx, dict(case, bursts=[[tuple(r) for r in b] for b in case["bursts"]]))
    simchecks.replay(ctx, case, "C12")
