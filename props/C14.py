"""C14 - HTTP/3 events are independent of chunking and survive a round trip.

A sending H3Connection (real pylsqpack, dynamic table in use) is driven with
generated messages; the bench records the byte string of every stream; the
bytes are replayed into fresh receiving H3Connections under many delivery
plans (splittings x interleavings).  Oracles: the normal form of every plan
equals that of the reference plan (metamorphic) and equals what was submitted
to the sending API (round trip); no plan closes the connection.
"""
import itertools

PROPERTY = "C14"
LEVEL = "exploration"
RULE = (
    "one evaluation = one delivery plan (a splitting of every stream's bytes into chunks and an interleaving of the chunks) replayed into a "
    "fresh receiving H3Connection; traffic comes from a real sending H3Connection (requests / responses / trailers / push / WebTransport / "
    "datagrams, QPACK dynamic table enabled). Short streams (<= 12 bytes after the QPACK streams) get every one of the 2^(n-1) splittings; "
    "others get Hypothesis-drawn cut points biased to frame boundaries, 1-byte dribble and separate FIN. Non-trivial = the plan cuts inside a "
    "frame header or exactly at a DATA boundary, or a request stream was blocked on the encoder stream at some point; distinct by "
    "(traffic hash, plan)."
)
ASSUMPTIONS = [
    "only streams produced by the sending API are replayed (malformed tails such as a DATA frame truncated by FIN belong to C16 and to the listed finding)",
    "pylsqpack (third party) is part of the environment",
    "per-stream order is preserved by every plan; the normal form concatenates adjacent DATA / WebTransport payloads",
]


# ---------------------------------------------------------------- traffic


def gen_traffic(draw_int, draw_choice, direction, many=False):
    """Drive a sending H3Connection; returns dict(streams=..., submitted=..., dgrams=[...], frame_marks={sid:set(offsets)})."""
    from aioquic.h3.connection import H3Connection
    from aioquic.quic.events import StreamDataReceived
    from vlib import h3bench as B

    sender_is_client = direction == "c2s"
    qs = B.StubQuic(sender_is_client)
    hs = H3Connection(qs, enable_webtransport=True)
    # the peer (a receiver of the other role) provides SETTINGS (+MAX_PUSH_ID) so that the dynamic table and pushes are usable
    qp = B.StubQuic(not sender_is_client)
    hp = H3Connection(qp, enable_webtransport=True)
    for sid, (data, fin) in qp.streams().items():
        hs.handle_event(StreamDataReceived(stream_id=sid, data=data, end_stream=False))
    fed = {sid: len(d) for sid, d in qp.out.items()}
    peer_seen = {}

    def feedback():
        # deliver what the sender produced so far to the peer and return the peer's decoder-stream bytes
        for sid, d in qs.out.items():
            off = peer_seen.get(sid, 0)
            if len(d) > off:
                hp.handle_event(StreamDataReceived(stream_id=sid, data=bytes(d[off:]), end_stream=False))
                peer_seen[sid] = len(d)
        for sid, d in qp.out.items():
            off = fed.get(sid, 0)
            if len(d) > off:
                hs.handle_event(StreamDataReceived(stream_id=sid, data=bytes(d[off:]), end_stream=False))
                fed[sid] = len(d)

    names = [b"x-a", b"x-b", b"user-agent", b"accept", b"x-long-" + b"n" * 20, b"cookie", b"x-c"]
    values = [b"v1", b"value-two", b"", b"z" * 40, b"a b", b"\xc3\xa9", b"0", b"text/html; charset=utf-8", b"caf\xe9 \xff\xfe", b"demo/1.0\t(tab inside)", b"x\x01y\x1fz\x7f"]  # (the last one is not UTF-8)
    submitted = {}
    marks = {}
    nmsg = draw_int(1, 4)
    # many: 17-24 messages in one go while nothing comes back from the peer (no QPACK acknowledgements: with acknowledgements from another
    # receiver instance the replayed interleavings would not be histories of one receiver).  More streams then want dynamic-table entries than the
    # receiver allows to block (SETTINGS_QPACK_BLOCKED_STREAMS = 16); a correct encoder does not reference unacknowledged entries on more than that.
    quiet_peer = many
    if many:
        nmsg = 16 + 2 * nmsg
    for i in range(nmsg):
        if sender_is_client:
            sid = qs.get_next_available_stream_id()
            hdrs = [(b":method", draw_choice([b"GET", b"POST", b"CONNECT"])), (b":scheme", b"https"), (b":authority", b"example.com"), (b":path", b"/" + bytes([97 + i]) * draw_choice([1, 1, 30]))]
        else:
            sid = 4 * i
            hdrs = [(b":status", draw_choice([b"200", b"404", b"103"]))]
        for _ in range(draw_int(0, 5)):
            hdrs.append((draw_choice(names), draw_choice(values)))
        items = []
        nbody = draw_choice([0, 0, 1, 5, 63, 64, 100, 3000, 20000]) if nmsg <= 8 else draw_choice([0, 0, 1, 5])
        parts = draw_int(1, 4) if nbody else draw_int(0, 2)
        trailers = draw_int(0, 9) < 3
        if nbody and parts and draw_int(0, 1):
            hdrs.append((b"content-length", str(nbody).encode()))
        push = (not sender_is_client) and draw_int(0, 9) < 3
        if push:
            ph = [(b":method", b"GET"), (b":scheme", b"https"), (b":authority", b"example.com"), (b":path", b"/pushed%d" % i), (draw_choice(names), draw_choice(values))]
            try:
                psid = hs.send_push_promise(sid, ph)
                items.append(("P", tuple(ph), None))
                pr = [(b":status", b"200"), (draw_choice(names), draw_choice(values))]
                hs.send_headers(psid, pr, end_stream=False)
                pb = bytes((j * 7 + i) & 0xFF for j in range(draw_choice([0, 3, 200])))
                hs.send_data(psid, pb, end_stream=True)
                submitted[psid] = ((("H", tuple(pr), "push"),) + ((("D", pb, "push"),) if pb else ()), True)
            except Exception as e:  # NoAvailablePushIDError
                if type(e).__name__ != "NoAvailablePushIDError":
                    raise
        end_on_headers = parts == 0 and not trailers
        hs.send_headers(sid, hdrs, end_stream=end_on_headers)
        items.insert(0, ("H", tuple(hdrs), None))
        if push and len(items) > 1:
            # the push promise was sent before the headers on the wire
            items = [items[1], items[0]]
        body = bytes((j * 13 + i * 5) & 0xFF for j in range(nbody)) if parts else b""
        if parts:
            cuts = sorted(draw_int(0, len(body)) for _ in range(parts - 1))
            pieces = [body[a:b] for a, b in zip([0] + cuts, cuts + [len(body)])]
            for k, p in enumerate(pieces):
                hs.send_data(sid, p, end_stream=(k == len(pieces) - 1 and not trailers))
            if body:
                items.append(("D", body, None))
        if trailers:
            tr = [(b"x-trailer", draw_choice(values)), (draw_choice(names), b"t")]
            hs.send_headers(sid, tr, end_stream=True)
            items.append(("H", tuple(tr), None))
        submitted[sid] = (tuple(items), True)
        if draw_int(0, 1) and not quiet_peer:
            feedback()
    if draw_int(0, 9) < 3:
        uni = bool(draw_int(0, 1))
        wid = hs.create_webtransport_stream(0 if sender_is_client else 4, is_unidirectional=uni)
        payload = b"wtdata" * draw_int(0, 5)
        qs.send_stream_data(wid, payload, end_stream=True)
        submitted[wid] = ((("W", payload, 0 if sender_is_client else 4),), True)
    dgrams = []
    if draw_int(0, 9) < 2:
        d = b"dg" * draw_int(0, 4)
        hs.send_datagram(0, d)
        dgrams = list(qs.datagrams)
        submitted["datagrams"] = ((0, d),)
    return {"streams": qs.streams(), "submitted": submitted, "dgrams": dgrams, "sender_is_client": sender_is_client}


def frame_boundaries(data, sid):
    """Offsets of frame headers / payload starts in a request or push stream (best effort, for plan biasing and classification)."""
    marks = set()
    hdr = set()
    pos = 0
    n = len(data)

    def vi(p):
        if p >= n:
            return None, p
        ln = 1 << (data[p] >> 6)
        if p + ln > n:
            return None, p
        return int.from_bytes(data[p : p + ln], "big") & ((1 << (8 * ln - 2)) - 1), p + ln

    if sid % 4 in (2, 3):
        t, pos = vi(0)
        if t == 1:  # push stream: push id follows
            _, pos = vi(pos)
        elif t != 0:
            return marks, hdr
        if t is None:
            return marks, hdr
        marks.add(pos)
    while pos < n:
        start = pos
        ft, pos = vi(pos)
        if ft is None:
            break
        if ft == 0x41:
            break
        fl, pos2 = vi(pos)
        if fl is None:
            break
        for k in range(start + 1, pos2):
            hdr.add(k)
        marks.add(start)
        marks.add(pos2)
        pos = pos2 + fl
        marks.add(pos)
    return {m for m in marks if 0 < m < n}, hdr


def ref_plan(streams, dgrams):
    order = sorted(streams, key=lambda s: (s % 4 in (0, 1), s))  # unidirectional (control, qpack) first
    return [(sid, streams[sid][0], streams[sid][1]) for sid in order] + [("dgram", d) for d in dgrams]


def receiver_for(traffic, finished_requests):
    """-> kwargs for h3bench.deliver: a receiving client that has already sent (and finished) the requests the responses belong to"""
    from aioquic.h3.connection import H3Connection
    from vlib import h3bench as B

    if traffic["sender_is_client"] or not finished_requests:
        return {}
    q = B.StubQuic(True)
    h3 = H3Connection(q, enable_webtransport=True)
    for sid in sorted(s for s in traffic["streams"] if s % 4 == 0):
        mine = q.get_next_available_stream_id()
        h3.send_headers(mine, [(b":method", b"GET"), (b":scheme", b"https"), (b":authority", b"example.com"), (b":path", b"/%d" % mine)], end_stream=True)
    return {"h3": h3, "quic": q}


def check_plan(ctx, traffic, plan, ref_norm, case, nontrivial_hint):
    from vlib import h3bench as B

    receiver_is_client = not traffic["sender_is_client"]
    try:
        evs, q, h3 = B.deliver(plan, receiver_is_client, **receiver_for(traffic, case.get("finished_requests", False)))
    except Exception as e:
        ctx.violation("receiver-raised-" + type(e).__name__, "handle_event raised %r on valid traffic" % (e,), case)
        return
    got = B.normalise(evs)
    if q.closed is not None:
        ctx.violation("valid-traffic-closed-connection", "plan closed the connection with %r" % (q.closed,), case)
        return
    if got != ref_norm:
        diff = [sid for sid in set(got) | set(ref_norm) if got.get(sid) != ref_norm.get(sid)]
        ctx.violation(
            "events-depend-on-chunking",
            "streams %r differ: plan gives %r, whole delivery gives %r" % (diff, str([got.get(s) for s in diff])[:400], str([ref_norm.get(s) for s in diff])[:400]),
            case,
        )


def plan_desc(plan):
    return [[p[0], len(p[1]), bool(p[2])] if p[0] != "dgram" else ["dgram", len(p[1])] for p in plan]


def roundtrip_check(ctx, traffic, ref_norm, case):
    sub = traffic["submitted"]
    for sid, want in sub.items():
        if sid == "datagrams":
            if ref_norm.get("datagrams") != tuple(sorted(want)):
                ctx.violation("roundtrip-datagrams-differ", "submitted %r, received %r" % (want, ref_norm.get("datagrams")), case)
            continue
        items, ended = want
        got = ref_norm.get(sid)
        if got is None:
            ctx.violation("roundtrip-stream-missing", "nothing received for stream %r; submitted %r" % (sid, str(items)[:300]), case)
            continue
        # compare kinds and payloads; WebTransport items also compare the session id; push-stream
        # items must carry an integer push id
        gi = tuple((k, v, p if k == "W" else None) for k, v, p in got[0])
        wi = tuple((k, v, p if k == "W" else None) for k, v, p in items)
        if any(p == "push" for _, _, p in items) and not all(isinstance(p, int) for _, _, p in got[0]):
            ctx.violation("roundtrip-push-id-missing", "push stream %r items without push id: %s" % (sid, str(got[0])[:300]), case)
        if gi != wi or got[1] != ended:
            ctx.violation("roundtrip-differs", "stream %r: submitted %s ended=%s, received %s ended=%s" % (sid, str(wi)[:300], ended, str(gi)[:300], got[1]), case)


def make_traffic(seedval, direction):
    import random

    rnd = random.Random(seedval)  # only used by replay(); Hypothesis paths pass their own draws
    return gen_traffic(lambda a, b: rnd.randint(a, b), lambda xs: rnd.choice(xs), direction)


def random_plans(ctx, examples, shard, plans_per_traffic):
    from hypothesis import strategies as st
    from vlib import h3bench as B
    from vlib.harness import run_hypothesis, h64

    def body(ctx, data):
        direction = data.draw(st.sampled_from(["c2s", "s2c"]))
        draws = []

        def di(a, b):
            v = data.draw(st.integers(a, b))
            draws.append(v)
            return v

        def dc(xs):
            i = data.draw(st.integers(0, len(xs) - 1))
            draws.append(i)
            return xs[i]

        many = data.draw(st.integers(0, 11)) == 0
        traffic = gen_traffic(di, dc, direction, many=many)
        streams = traffic["streams"]
        thash = h64((direction, many, tuple(draws)))
        refp = ref_plan(streams, traffic["dgrams"])
        finished_requests = direction == "s2c" and len(draws) % 2 == 0
        case0 = {"kind": "plan", "direction": direction, "draws": draws, "many": many, "plan": plan_desc(refp), "finished_requests": finished_requests}
        try:
            evs, q, _ = B.deliver(refp, not traffic["sender_is_client"], **receiver_for(traffic, finished_requests))
        except Exception as e:
            ctx.violation("receiver-raised-" + type(e).__name__, "handle_event raised %r on valid traffic (whole delivery)" % (e,), case0)
            return
        ref_norm = B.normalise(evs)
        ctx.case((thash, "ref"), nontrivial=False, classes=["traffic:" + direction])
        if q.closed is not None:
            ctx.violation("valid-traffic-closed-connection", "whole delivery closed the connection with %r" % (q.closed,), case0)
            return
        roundtrip_check(ctx, traffic, ref_norm, case0)
        bounds = {sid: frame_boundaries(d, sid) for sid, (d, fin) in streams.items()}
        for _ in range(plans_per_traffic):
            queues = {}
            nt = False
            for sid, (d, fin) in streams.items():
                mode = data.draw(st.sampled_from(["whole", "marks", "random", "dribble", "marks+1"]))
                marks, hdrs = bounds[sid]
                cuts = set()
                if mode == "marks":
                    cuts = {m for m in marks if data.draw(st.booleans())}
                elif mode == "marks+1":
                    cuts = {min(len(d) - 1, max(1, m + data.draw(st.sampled_from([-1, 1])))) for m in marks if data.draw(st.booleans())} if len(d) > 1 else set()
                elif mode == "random":
                    k = data.draw(st.integers(0, 4))
                    cuts = {data.draw(st.integers(1, max(1, len(d) - 1))) for _ in range(k)} if len(d) > 1 else set()
                elif mode == "dribble" and len(d) <= 400:
                    cuts = set(range(1, len(d)))
                cuts = sorted(c for c in cuts if 0 < c < len(d))
                if any(c in hdrs for c in cuts) or any(c in marks for c in cuts):
                    nt = True
                ch = [d[a:b] for a, b in zip([0] + cuts, cuts + [len(d)])]
                qd = [(sid, c, fin and i == len(ch) - 1) for i, c in enumerate(ch)]
                if fin and data.draw(st.integers(0, 4)) == 0:
                    qd[-1] = (sid, qd[-1][1], False)
                    qd.append((sid, b"", True))
                queues[sid] = qd
            for d in traffic["dgrams"]:
                queues[("dgram", len(queues))] = [("dgram", d)]
            plan = []
            keys = sorted(queues, key=str)
            while keys:
                k = keys[data.draw(st.integers(0, len(keys) - 1))]
                plan.append(queues[k].pop(0))
                if not queues[k]:
                    keys.remove(k)
            # was a request stream delivered before the encoder stream completed?  (possible blocking)
            enc = [sid for sid in streams if sid % 4 in (2, 3) and len(streams[sid][0]) > 1 and streams[sid][0][0] == 2]
            if enc:
                last_enc = max(i for i, p in enumerate(plan) if p[0] == enc[0])
                if any(p[0] != "dgram" and p[0] % 4 in (0, 1) and i < last_enc for i, p in enumerate(plan)):
                    nt = True
                    ctx.cls("plan:request-before-encoder-stream-complete")
            case = {"kind": "plan", "direction": direction, "draws": draws, "finished_requests": finished_requests, "plan": [[p[0], p[1], p[2]] if p[0] != "dgram" else ["dgram", p[1]] for p in plan]}
            ctx.case((thash, tuple((p[0], len(p[1])) for p in plan)), nontrivial=nt, classes=["plan"])
            check_plan(ctx, traffic, plan, ref_norm, case, nt)
            if ctx.want_sample():
                ctx.sample({"direction": direction, "plan": plan_desc(plan)})

    run_hypothesis(ctx, body, st.data(), examples, shard=shard)


def exhaustive_short(ctx, part, nparts):
    """Every splitting of short request/response streams (others delivered whole, before)."""
    from vlib import h3bench as B
    from aioquic.h3.connection import FrameType

    n = 0
    for role in ("request", "response"):
        base = [(b":method", b"GET"), (b":scheme", b"https"), (b":authority", b"a"), (b":path", b"/")] if role == "request" else [(b":status", b"200")]
        hf = B.frame(FrameType.HEADERS, B.qpack_literal(base))
        tails = [
            b"",
            B.frame(FrameType.DATA, b""),
            B.frame(FrameType.DATA, b"ab"),
            B.frame(FrameType.DATA, b"a") + B.frame(FrameType.DATA, b"b"),
            B.frame(FrameType.DATA, b"abc") + B.frame(FrameType.HEADERS, B.qpack_literal([(b"t", b"1")])),
            B.varint_n(0, 2) + B.varint_n(2, 4) + b"xy",  # non-minimal varints in the frame header
            B.frame(0x21, b"zz") + B.frame(FrameType.DATA, b"q"),  # reserved (grease) frame type is skipped
            B.frame(FrameType.DATA, b"abcdef"),
        ]
        for tail in tails:
            data = hf + tail
            # split only the tail region (+ the last 2 bytes of the headers frame) exhaustively
            head_keep = len(hf) - 2
            region = data[head_keep:]
            if len(region) > 14:
                continue
            evs, q, _ = B.deliver([(0, data, True)], is_client=(role == "response"))
            ref = B.normalise(evs)
            if q.closed is not None:
                ctx.violation("valid-traffic-closed-connection", "whole delivery of %r closed with %r" % (data, q.closed), {"kind": "short", "role": role, "data": data})
            for chunks in B.all_splittings(region):
                for lone_fin in (False, True):
                    n += 1
                    if n % nparts != part:
                        continue
                    plan = [(0, data[:head_keep], False)] + [(0, c, False) for c in chunks]
                    if lone_fin:
                        plan.append((0, b"", True))
                    else:
                        plan[-1] = (0, plan[-1][1], True)
                    case = {"kind": "short", "role": role, "plan": [[0, p[1], p[2]] for p in plan]}
                    ctx.case((role, tail, tuple(len(c) for c in chunks), lone_fin), nontrivial=len(chunks) > 1)
                    try:
                        evs, q, _ = B.deliver(plan, is_client=(role == "response"))
                    except Exception as e:
                        ctx.violation("receiver-raised-" + type(e).__name__, "handle_event raised %r" % (e,), case)
                        continue
                    got = B.normalise(evs)
                    if q.closed is not None:
                        ctx.violation("valid-traffic-closed-connection", "plan closed the connection with %r" % (q.closed,), case)
                    elif got != ref:
                        ctx.violation("events-depend-on-chunking", "plan gives %r, whole delivery gives %r" % (got, ref), case)
                    if ctx.want_sample():
                        ctx.sample({"role": role, "chunks": [len(p[1]) for p in plan], "lone_fin": lone_fin})
    ctx.extra["exhaustive"] = True


def replay(ctx, case):
    from vlib import h3bench as B

    if case["kind"] == "short":
        plan = [(p[0], bytes(p[1]), p[2]) for p in case["plan"]]
        data = b"".join(p[1] for p in plan)
        is_client = case["role"] == "response"
        evs, q, _ = B.deliver([(0, data, True)], is_client)
        ref = B.normalise(evs)
        evs, q, _ = B.deliver(plan, is_client)
        ctx.case(None, True)
        if q.closed is not None:
            ctx.violation("valid-traffic-closed-connection", "plan closed the connection with %r" % (q.closed,), case)
        elif B.normalise(evs) != ref:
            ctx.violation("events-depend-on-chunking", "plan gives %r, whole delivery gives %r" % (B.normalise(evs), ref), case)
        return
    draws = list(case["draws"])
    it = iter(draws)
    traffic = gen_traffic(lambda a, b: next(it), lambda xs: xs[next(it)], case["direction"], many=bool(case.get("many")))
    refp = ref_plan(traffic["streams"], traffic["dgrams"])
    evs, q, _ = B.deliver(refp, not traffic["sender_is_client"], **receiver_for(traffic, case.get("finished_requests", False)))
    ref_norm = B.normalise(evs)
    ctx.case(None, True)
    roundtrip_check(ctx, traffic, ref_norm, case)
    plan = [tuple(p) if p[0] != "dgram" else ("dgram", p[1]) for p in case["plan"]]
    if plan and isinstance(plan[0][1], (bytes, bytearray)):
        check_plan(ctx, traffic, [(p[0], bytes(p[1]), p[2]) if p[0] != "dgram" else p for p in plan], ref_norm, case, True)


def plan(tier, seed):
    t = []
    if tier == "quick":
        for s in range(10):
            t.append(("random-plans-%d" % s, {"fn": "rp", "examples": 60, "shard": s, "ppt": 6}))
        for p in range(4):
            t.append(("exhaustive-short-%d" % p, {"fn": "ex", "part": p, "nparts": 4}))
    else:
        for s in range(12):
            t.append(("random-plans-%d" % s, {"fn": "rp", "examples": 1500, "shard": s, "ppt": 10}))
        for p in range(4):
            t.append(("exhaustive-short-%d" % p, {"fn": "ex", "part": p, "nparts": 4}))
    return t


def run_task(ctx, name, fn, **kw):
    if fn == "rp":
        random_plans(ctx, kw["examples"], kw["shard"], kw["ppt"])
    else:
        exhaustive_short(ctx, kw["part"], kw["nparts"])
