PROPERTY = "C09"
LEVEL = "exploration"
from vlib.simprops import RULES, ASSUMPTIONS_FOR
RULE = RULES["C09"]
ASSUMPTIONS = ASSUMPTIONS_FOR["C09"]


RULE = RULE + (
    " Additionally (task first-datagrams): one evaluation = a fresh server connection, a client right after connect(), or an endpoint in mid-handshake, fed 1-6 "
    "arbitrary / genuine / mutated datagrams (generator of C05 G1/G2: garbage, short Initials, non-Initial first packets, unsupported versions, truncated headers) "
    "and then left alone: after the first datagram (or connect) get_timer() must be finite while the connection is not terminated, and firing the timers must "
    "lead to exactly one ConnectionTerminated no later than the idle timeout (or 3 x PTO if larger) after the last datagram, after which get_timer() is None "
    "and no event follows."
)


def simchecks_ref_pto(conn):
    from vlib import simchecks

    return simchecks.ref_pto(conn)


def first_datagrams_case(ctx, case):
    """whatever the first datagrams are, the connection names a finite deadline and idles out"""
    from props import C05
    from vlib import endpoints as E

    with E.pinned(("c09-first", case["state"])):
        sut, role, now, nxt, flights = C05.make_state(case["state"])
        src = E.CLIENT_ADDR if role == "server" else E.SERVER_ADDR
        idle = sut._configuration.idle_timeout
        terminated = 0
        closing_since = None
        pto_at_close = None
        fed = 0
        last = now
        cls = ["first:" + case["state"]]

        def events():
            nonlocal terminated
            n = 0
            while True:
                e = sut.next_event()
                if e is None:
                    return n
                n += 1
                if type(e).__name__ == "ConnectionTerminated":
                    terminated += 1
                elif terminated:
                    ctx.violation("event-after-termination", "%s reported %s after ConnectionTerminated (state %s)" % (role, type(e).__name__, case["state"]), case)

        try:
            for inp in case["inputs"]:
                kind = inp[0]
                if kind == "bytes":
                    data = bytes(inp[1])
                elif kind == "genuine":
                    pool = nxt or [d for x, d in flights if x != ("s" if role == "server" else "c")]
                    data = pool[inp[1] % len(pool)] if pool else b""
                elif kind == "mutated":
                    pool = (nxt + [d for x, d in flights if x != ("s" if role == "server" else "c")]) or [b"\x00"]
                    data = C05.mutate(pool[inp[1] % len(pool)], inp[2])
                elif kind in ("vn", "retry"):
                    data = C05.build_special(sut, inp)
                elif kind == "initial_bad":
                    data = bad_initial(inp[1])
                else:
                    continue
                now += 0.001
                sut.receive_datagram(data, src, now)
                fed += 1
                last = now
                events()
                sut.datagrams_to_send(now)
                if closing_since is None and (sut._close_event is not None or sut._state.name in ("CLOSING", "DRAINING")) and not terminated:
                    closing_since = now
                    pto_at_close = simchecks_ref_pto(sut)
                t = sut.get_timer()
                if not terminated and sut._state.name != "TERMINATED" and t is None:
                    ctx.violation("no-timer-on-live-connection", "%s in state %s: get_timer() is None after %d datagram(s) (connection state %s, not terminated)" % (role, case["state"], fed, sut._state.name), case)
                    return
            if case["state"] == "client-connecting" and not fed:
                t = sut.get_timer()
                if t is None:
                    ctx.violation("no-timer-on-live-connection", "client after connect(): get_timer() is None", case)
                    return
            if not fed and case["state"] == "fresh-server":
                ctx.case(("first", repr(case)), nontrivial=False, classes=cls + ["first:nothing-fed"])
                return
            # silence: only timers from now on
            budget = max(idle, 3 * simchecks_ref_pto(sut)) + 1.0
            for _ in range(400):
                if terminated:
                    break
                t = sut.get_timer()
                if t is None:
                    if sut._state.name != "TERMINATED":
                        ctx.violation("no-timer-on-live-connection", "%s in state %s: get_timer() became None during the silent period (connection state %s)" % (role, case["state"], sut._state.name), case)
                    break
                now = max(now, t)
                if now > last + budget + 200:
                    break
                sut.handle_timer(now)
                events()
                sut.datagrams_to_send(now)
            if fed or case["state"] != "fresh-server":
                if terminated != 1:
                    ctx.violation("silent-connection-never-terminates" if not terminated else "termination-reported-twice", "%s in state %s: %d ConnectionTerminated events within %.1f s of silence (idle timeout %.0f s)" % (role, case["state"], terminated, now - last, idle), case)
                    return
                if now > last + budget:
                    ctx.violation("idle-termination-too-late", "%s in state %s terminated %.2f s after the last datagram (idle timeout %.0f s)" % (role, case["state"], now - last, idle), case)
                    return
                if closing_since is not None and now > closing_since + 3 * pto_at_close + 0.01:
                    ctx.violation("closing-does-not-terminate-within-three-pto", "%s in state %s: a fatal error / close was detected at t=%.4f (PTO %.4f) but termination was reported at t=%.4f, %.2f s later (allowed: 3 PTO = %.3f s)" % (role, case["state"], closing_since, pto_at_close, now, now - closing_since, 3 * pto_at_close), case)
                    return
                if sut.get_timer() is not None:
                    ctx.violation("timer-after-termination", "%s: get_timer() = %r after ConnectionTerminated" % (role, sut.get_timer()), case)
                    return
                events()
        except Exception as e:  # noqa - exceptions on hostile input are C05's subject
            from vlib.harness import Violation

            if isinstance(e, Violation):
                raise
            cls.append("first:api-raised")
        ctx.case(("first", repr(case)), nontrivial=fed > 0, classes=cls + ["first:terminated" if terminated else "first:never-started"])


def bad_initial(which):
    """a correctly protected, 1200-byte first Initial (anyone can derive Initial keys) whose content is a fatal error for the server that processes it"""
    from vlib import refquic as R

    dcid, scid = bytes.fromhex("8394c8f03e515708"), bytes.fromhex("c1c2c3c4c5c6c7c8")
    ck, _ = R.initial_keys(R.V1, dcid)
    frames = {
        "stream-frame": [{"name": "stream", "stream_id": 0, "offset": 0, "data": b"x", "fin": False}],
        "garbage-crypto": [{"name": "crypto", "offset": 0, "data": b"\x01\x00\x00\x05hello"}],
        "no-crypto": [{"name": "ping"}],
        "handshake-done": [{"name": "handshake_done"}],
        "crypto-not-client-hello": [{"name": "crypto", "offset": 0, "data": b"\x14\x00\x00\x20" + bytes(32)}],
    }[which]
    payload = R.encode_frames(frames)
    payload += bytes(1200 - 16 - len(R.build_long_header(R.V1, R.PT_INITIAL, dcid, scid, 0, 2, 1100, length_size=2)) - len(payload))
    hdr = R.build_long_header(R.V1, R.PT_INITIAL, dcid, scid, 0, 2, len(payload), length_size=2)
    return R.protect(ck, hdr, 0, payload)


def first_datagrams_task(ctx, examples, shard):
    from hypothesis import strategies as st
    from props import C05
    from vlib.harness import run_hypothesis

    states = st.sampled_from(["fresh-server", "fresh-server", "fresh-server", "client-connecting", "server-after-initial", "client-after-server-flight", "server-after-client-finished", "connected-server", "connected-client"])
    strat = st.tuples(C05.raw_strategy(), states).map(lambda t: dict(t[0], kind="first", state=t[1], inputs=[i for i in t[0]["inputs"] if i[0] in ("bytes", "genuine", "mutated", "vn", "retry")] or [("bytes", b"\x00")]))

    # a client right after connect(): Version Negotiation (acceptable, unacceptable, ignorable), Retry, and the genuine answer in any order
    special = st.lists(st.one_of(st.tuples(st.just("vn"), st.sampled_from(["current", "current+other", "other", "none", "unknown", "many"]), st.booleans()), st.tuples(st.just("retry"), st.sampled_from([0, 16, 100, 1150]), st.booleans()), st.tuples(st.just("genuine"), st.integers(0, 3))), min_size=1, max_size=4)
    directed = special.map(lambda inputs: {"kind": "first", "state": "client-connecting", "inputs": inputs})
    # a fresh server whose very first packet is well protected and fatal
    fatal_first = st.tuples(st.sampled_from(["stream-frame", "garbage-crypto", "no-crypto", "handshake-done", "crypto-not-client-hello"]), st.lists(st.tuples(st.just("genuine"), st.integers(0, 3)), max_size=2)).map(
        lambda t: {"kind": "first", "state": "fresh-server", "inputs": [("initial_bad", t[0])] + t[1]}
    )
    strat = st.one_of(strat, strat, strat, directed, fatal_first)

    def body(ctx, case):
        first_datagrams_case(ctx, case)
        if ctx.want_sample():
            ctx.sample({"state": case["state"], "inputs": [[i[0]] + [x if not isinstance(x, bytes) else x[:16] for x in i[1:]] for i in case["inputs"]][:4]})

    run_hypothesis(ctx, body, strat, examples, shard=shard)


def plan(tier, seed):
    from vlib import simchecks

    t = simchecks.plan_for("C09", tier, seed)
    for s in range(2):
        t.append(("first-datagrams-%d" % s, {"fn": "first", "examples": 300 if tier == "quick" else 15000, "shard": s}))
    return t


def run_task(ctx, name, fn, **kw):
    from vlib import simchecks

    if fn == "first":
        return first_datagrams_task(ctx, kw["examples"], kw["shard"])
    simchecks.run_task(ctx, "C09", name, fn, **kw)


def replay(ctx, case):
    from vlib import simchecks

    if case.get("kind") == "first":
        return first_datagrams_case(ctx, dict(case, inputs=[tuple(tuple(x) if isinstance(x, list) else x for x in i) for i in case["inputs"]]))
    simchecks.replay(ctx, case, "C09")
