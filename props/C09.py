PROPERTY = "C09"
LEVEL = "exploration"
from vlib.simprops import RULES, ASSUMPTIONS_FOR
RULE = RULES["C09"]
ASSUMPTIONS = ASSUMPTIONS_FOR["C09"]


def plan(tier, seed):
    from vlib import simchecks

    return simchecks.plan_for("C09", tier, seed)


def run_task(ctx, name, fn, **kw):
    from vlib import simchecks

    simchecks.run_task(ctx, "C09", name, fn, **kw)


def replay(ctx, case):
    from vlib import simchecks

    simchecks.replay(ctx, case, "C09")
