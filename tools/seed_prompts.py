#!/venv/bin/python
"""Development tool: prepares a round of seeded-breakage sub-agents.

    tools/seed_prompts.py <root> <variant>

creates one scratch git worktree of /repo per property under <root>/<id> (with freshly built C helpers) and writes <root>/prompts/<id>.txt.
The prompt contains only the text of the property (id, title, statement, quantifier, anchors) and one-sentence summaries of the changes planted in
earlier rounds (so that the new one differs) - nothing about /verif or its checks.
"""
import json, os, subprocess, sys

VERIF = os.path.dirname(os.path.dirname(os.path.abspath(__file__)))
TEMPLATE = open(os.path.join(VERIF, "tools", "seed_prompt_template.txt")).read()


def anchors(a):
    out = []
    if a.get("files"):
        out.append("files: " + ", ".join(a["files"]))
    for key in ("state", "mechanisms", "mechanism"):
        for m in a.get(key) or []:
            if isinstance(m, dict):
                out.append("%s: %s (%s)" % (key.rstrip("s"), m.get("name") or m.get("what") or "", m.get("where") or m.get("location") or ""))
            else:
                out.append("%s: %s" % (key.rstrip("s"), m))
    return "; ".join(out)


def main():
    root, variant = sys.argv[1], sys.argv[2]
    os.makedirs(os.path.join(root, "prompts"), exist_ok=True)
    inc = subprocess.check_output(["/venv/bin/python", "-c", "import sysconfig;print(sysconfig.get_paths()['include'])"], text=True).strip()
    for line in open(os.path.join(VERIF, "properties.jsonl")):
        p = json.loads(line)
        pid = p["id"]
        wt = os.path.join(root, pid)
        if not os.path.exists(wt):
            subprocess.check_call(["git", "-C", "/repo", "worktree", "add", "-q", "--detach", wt, "HEAD"])
            for m, extra in (("_buffer", []), ("_crypto", ["-lcrypto"])):
                subprocess.check_call(["gcc", "-O2", "-shared", "-fPIC", "-std=c99", "-DPy_LIMITED_API=0x030A0000", "-I" + inc, "src/aioquic/%s.c" % m, "-o", "src/aioquic/%s.abi3.so" % m] + extra, cwd=wt)
        earlier = []
        d = os.path.join(VERIF, "seeded", pid)
        for v in sorted(os.listdir(d)) if os.path.isdir(d) else []:
            try:
                m = json.load(open(os.path.join(d, v, "meta.json")))
            except Exception:
                continue
            earlier.append("  - (%s) %s [files: %s]" % (v, (m.get("summary") or "")[:420], ", ".join(m.get("files") or [])))
        text = TEMPLATE
        for k, val in {
            "ROOT": root, "WT": wt, "ID": pid, "TITLE": p.get("title", ""), "STATEMENT": p.get("statement", ""), "QUANT": (p.get("quantifier") or {}).get("text", ""),
            "ANCHORS": anchors(p.get("anchors") or {}), "EARLIER": "\n".join(earlier), "V": variant,
        }.items():
            text = text.replace("{{%s}}" % k, val)
        open(os.path.join(root, "prompts", pid + ".txt"), "w").write(text)
    print("prepared", root)


main()
