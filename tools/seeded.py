#!/venv/bin/python
"""Development tool (not a registered check): seeded breakage written by independent sub-agents.

    tools/seeded.py collect            copy /tmp/seed/<id>/seeded/<v>/ into /verif/seeded/<id>/<v>/
    tools/seeded.py confirm [ids...]   in a scratch git worktree: apply the patch, (rebuild C), run the repository's
                                       test suite, run demo.py (expects exit 1), undo, run demo.py (expects exit 0)
    tools/seeded.py run [ids...] [--checks C01,C05] [--tier quick] [--jobs N]
                                       run our checks against a scratch copy of /repo/src with the patch applied

Nothing is ever applied to /repo itself.  Results are appended to seeded/results.json.
"""
import argparse, json, os, shutil, subprocess, sys, tempfile, time
from concurrent.futures import ThreadPoolExecutor

VERIF = os.path.dirname(os.path.dirname(os.path.abspath(__file__)))
SEEDED = os.path.join(VERIF, "seeded")
RESULTS = os.path.join(SEEDED, "results.json")


def variants(ids):
    out = []
    for pid in sorted(os.listdir(SEEDED)):
        d = os.path.join(SEEDED, pid)
        if not os.path.isdir(d) or (ids and pid not in ids and not any(i.startswith(pid + "/") for i in ids)):
            continue
        for v in sorted(os.listdir(d)):
            if os.path.exists(os.path.join(d, v, "patch.diff")) and (not ids or pid in ids or (pid + "/" + v) in ids):
                out.append((pid, v))
    return out


def load_results():
    if os.path.exists(RESULTS):
        return json.load(open(RESULTS))
    return {}


def save_results(r):
    json.dump(r, open(RESULTS, "w"), indent=1, sort_keys=True)


def collect(root="/tmp/seed"):
    for pid in sorted(os.listdir(root)):
        src = os.path.join(root, pid, "seeded")
        if not os.path.isdir(src):
            continue
        for v in sorted(os.listdir(src)):
            s = os.path.join(src, v)
            if not os.path.exists(os.path.join(s, "patch.diff")):
                continue
            d = os.path.join(SEEDED, pid, v)
            os.makedirs(d, exist_ok=True)
            for fn in os.listdir(s):
                if os.path.isfile(os.path.join(s, fn)) and os.path.getsize(os.path.join(s, fn)) < 400000:
                    shutil.copy(os.path.join(s, fn), os.path.join(d, fn))
            print("collected", pid, v)


def build_c(wt):
    inc = subprocess.check_output(["/venv/bin/python", "-c", "import sysconfig;print(sysconfig.get_paths()['include'])"], text=True).strip()
    for m, extra in (("_buffer", []), ("_crypto", ["-lcrypto"])):
        subprocess.check_call(["gcc", "-O2", "-shared", "-fPIC", "-std=c99", "-DPy_LIMITED_API=0x030A0000", "-I" + inc, "src/aioquic/%s.c" % m, "-o", "src/aioquic/%s.abi3.so" % m] + extra, cwd=wt)


def confirm_one(pid, v):
    wt = tempfile.mkdtemp(prefix="verif-confirm-%s%s-" % (pid, v), dir="/dev/shm")
    os.rmdir(wt)
    res = {}
    try:
        subprocess.check_call(["git", "-C", "/repo", "worktree", "add", "-q", "--detach", wt, "HEAD"])
        d = os.path.join(SEEDED, pid, v)
        os.makedirs(os.path.join(wt, "seeded", v))
        for fn in os.listdir(d):
            shutil.copy(os.path.join(d, fn), os.path.join(wt, "seeded", v, fn))
        env = dict(os.environ, PYTHONPATH=os.path.join(wt, "src"))
        build_c(wt)
        p = subprocess.run(["patch", "-p1", "-s", "-i", os.path.join(d, "patch.diff")], cwd=wt, capture_output=True, text=True)
        if p.returncode != 0:
            return {"applies": False, "error": (p.stdout + p.stderr)[-500:]}
        res["applies"] = True
        touched_c = ".c" in open(os.path.join(d, "patch.diff")).read().split("+++")[1][:80] if "+++" in open(os.path.join(d, "patch.diff")).read() else False
        if any(l.startswith("+++") and l.strip().endswith(".c") for l in open(os.path.join(d, "patch.diff"))):
            build_c(wt)
            res["touches_c"] = True
        t0 = time.time()
        p = subprocess.run(["/venv/bin/python", "-m", "pytest", "-q", "-p", "no:cacheprovider", "--timeout=900", "-x"], cwd=wt, env=env, capture_output=True, text=True)
        res["tests_pass"] = p.returncode == 0
        res["tests_tail"] = p.stdout.strip().splitlines()[-1] if p.stdout.strip() else ""
        res["tests_wall_s"] = round(time.time() - t0)
        demo = os.path.join("seeded", v, "demo.py")
        p = subprocess.run(["/venv/bin/python", demo], cwd=wt, env=env, capture_output=True, text=True, timeout=900)
        res["demo_with_patch"] = p.returncode
        subprocess.check_call(["git", "-C", wt, "checkout", "--", "src"])
        build_c(wt)
        p = subprocess.run(["/venv/bin/python", demo], cwd=wt, env=env, capture_output=True, text=True, timeout=900)
        res["demo_without_patch"] = p.returncode
        res["confirmed"] = bool(res["tests_pass"] and res["demo_with_patch"] == 1 and res["demo_without_patch"] == 0)
        return res
    except Exception as e:  # noqa
        res["error"] = repr(e)[:400]
        return res
    finally:
        subprocess.run(["git", "-C", "/repo", "worktree", "remove", "--force", wt], capture_output=True)
        shutil.rmtree(wt, ignore_errors=True)


def run_one(pid, v, checks, tier, seed):
    d = tempfile.mkdtemp(prefix="verif-seeded-", dir="/dev/shm")
    try:
        shutil.copytree("/repo/src", os.path.join(d, "src"), ignore=shutil.ignore_patterns("*.so", "__pycache__"))
        p = subprocess.run(["patch", "-p1", "-s", "-i", os.path.join(SEEDED, pid, v, "patch.diff")], cwd=d, capture_output=True, text=True)
        if p.returncode != 0:
            return {"error": "patch does not apply: " + (p.stdout + p.stderr)[-300:]}
        env = dict(os.environ, VERIF_REPO=d, VERIF_EVIDENCE_DIR=d, VERIF_NOSHRINK="1", VERIF_SEED=str(seed), VERIF_OUT=os.path.join(d, "out"))
        out = {}
        for c in checks:
            t0 = time.time()
            p = subprocess.run([os.path.join(VERIF, "check"), c, "--tier", tier], env=env, capture_output=True, text=True, cwd=VERIF)
            sigs = [l.strip()[:300] for l in p.stdout.splitlines() if l.startswith("  violation")]
            out[c] = {"exit": p.returncode, "violations": sigs[:3], "wall_s": round(time.time() - t0), "tier": tier}
            if p.returncode == 2:
                out[c]["error"] = p.stdout[-600:]
        return out
    finally:
        shutil.rmtree(d, ignore_errors=True)
        b = os.path.join(VERIF, ".build")
        for n in os.listdir(b):
            q = os.path.join(b, n, "aioquic", "buffer.py")
            if os.path.islink(q) and not os.path.exists(q):
                shutil.rmtree(os.path.join(b, n), ignore_errors=True)


def main():
    ap = argparse.ArgumentParser()
    ap.add_argument("cmd")
    ap.add_argument("ids", nargs="*")
    ap.add_argument("--checks", default=None)
    ap.add_argument("--tier", default="quick")
    ap.add_argument("--seed", type=int, default=1)
    ap.add_argument("--jobs", type=int, default=4)
    a = ap.parse_args()
    if a.cmd == "collect":
        return collect(a.ids[0] if a.ids else "/tmp/seed")
    res = load_results()
    vs = variants(a.ids)
    with ThreadPoolExecutor(a.jobs) as ex:
        if a.cmd == "confirm":
            futs = {(pid, v): ex.submit(confirm_one, pid, v) for pid, v in vs}
            for (pid, v), f in futs.items():
                r = f.result()
                res.setdefault(pid + "/" + v, {})["confirm"] = r
                print(pid, v, "CONFIRMED" if r.get("confirmed") else "NOT-CONFIRMED", {k: r[k] for k in r if k != "confirmed"})
                save_results(res)
        elif a.cmd == "run":
            futs = {(pid, v): ex.submit(run_one, pid, v, a.checks.split(",") if a.checks else [pid], a.tier, a.seed) for pid, v in vs}
            for (pid, v), f in futs.items():
                r = f.result()
                e = res.setdefault(pid + "/" + v, {}).setdefault("checks", {})
                if "error" in r:
                    print(pid, v, "ERROR", r["error"])
                    continue
                e.update(r)
                for c, x in r.items():
                    print("%s/%s  %-4s %-8s %4ds  %s" % (pid, v, c, {0: "MISSED", 1: "caught", 2: "HARNESS-ERROR"}.get(x["exit"], x["exit"]), x["wall_s"], " | ".join(x["violations"])[:220]))
                save_results(res)


main()
