CHECKS = {
 "C10": {
  "technique": "exhaustive state-space closure against a set/dict reference model + Hypothesis rule-based machines",
  "text": "Every operation of a bounded alphabet (all (offset,len,fin) frames and resets for streams up to L bytes; all write/get_frame(cap)/ack/loss/reset ops for streams up to W bytes with <=3 outstanding frames; all add/subtract/shift on RangeSet over a small universe) is applied to every reachable implementation state until closure and compared with a reference model written from the statement; long streams (64 KiB) are sampled by rule-based machines. Exhaustive inside the bound, sampled outside; no claim beyond the bound.",
  "note": "Trusted: the reference models in props/C10.py; frames carry the sender's true bytes; the caller contract of the send half as QuicConnection uses it. States after a FIN/reset below already-received data are not explored (statement silent).",
 },
}
PENDING = {}
