CHECKS = {
 "C10": {
  "technique": "exhaustive state-space closure against a set/dict reference model + Hypothesis rule-based machines",
  "text": "Every operation of a bounded alphabet (all (offset,len,fin) frames and resets for streams up to L bytes; all write/get_frame(cap)/ack/loss/reset ops for streams up to W bytes with <=3 outstanding frames; all add/subtract/shift on RangeSet over a small universe) is applied to every reachable implementation state until closure and compared with a reference model written from the statement; long streams (64 KiB) are sampled by rule-based machines. Exhaustive inside the bound, sampled outside; no claim beyond the bound.",
  "note": "Trusted: the reference models in props/C10.py; frames carry the sender's true bytes; the caller contract of the send half as QuicConnection uses it. States after a FIN/reset below already-received data are not explored (statement silent).",
 },
}
CHECKS.update({
 "C08": {
  "technique": "Hypothesis rule-based state machine with a ledger model (invariants after every step)",
  "text": "A rule-based machine drives QuicPacketRecovery (Reno and CUBIC, three packet number spaces) with send / ack(arbitrary range sets incl. never-sent and already-acked numbers) / time advance + loss timer / space discard; every packet carries a recording delivery handler. After every step: bytes_in_flight equals the in-flight packets still tracked and is >= 0, tracked packets equal the ledger, handlers fire at most once (ACKED only for numbers in the ack, never after discard), cwnd >= 2 datagrams, a loss timer exists while ack-eliciting packets are outstanding. Sampled sequences, shrunk on failure.",
  "note": "Caller contract of QuicConnection (monotonic time, increasing packet numbers, timer fired only when due). The wire-level half of the statement (in-flight bytes on the wire vs congestion window) is checked by the simulator-based tasks of this check when present in the evidence.",
 },
 "C14": {
  "technique": "metamorphic testing (re-chunking / interleaving invariance) + round trip, Hypothesis-generated traffic and plans, exhaustive splittings of short streams",
  "text": "A real sending H3Connection (QPACK dynamic table on) produces requests, responses, trailers, pushes, WebTransport streams and datagrams; the recorded per-stream bytes are replayed into fresh receivers under generated splittings and cross-stream interleavings (every splitting for short tails). The normalised events of every plan must equal those of whole in-order delivery and what was submitted; no plan may close the connection.",
  "note": "Only sender-produced (valid) streams; pylsqpack is environment; normal form concatenates adjacent payloads. Sampled plans beyond the exhaustive short-stream part.",
 },
 "C15": {
  "technique": "exhaustive boundary-alphabet enumeration + Hypothesis, judged by an independent validator (two-directional oracle)",
  "text": "All header names/values over a 13-byte boundary alphabet up to length 3 (4 in thorough), all pseudo-header sequences up to length 4 (5) in four contexts, and content-length spellings x body splits x chunkings are delivered through a literal QPACK encoder; an independent validator written from the statement decides for each block whether it may reach the application (delivered => well-formed) and whether it must be refused with H3_MESSAGE_ERROR (malformed => no event + 0x10e).",
  "note": "Blocks refused for reasons beyond the statement, non-1*DIGIT content-length spellings and blocks refused by the QPACK decoder itself are accepted either way. Trusted: props/C15.py validator, vlib/h3bench.py literal encoder.",
 },
 "C16": {
  "technique": "grammar-based + mutation fuzzing with Hypothesis (totality oracle), then differential close over a real connection pair",
  "text": "Per-stream byte sequences for every stream kind and both roles are built from a frame grammar (lying/zero/huge lengths, truncated varints, reserved/duplicate/truncated SETTINGS, malformed MAX_PUSH_ID / PUSH_PROMISE, garbage QPACK, oversized and non-UTF-8 names and values) after valid prefixes from a real sender, randomly chunked and interleaved, with qlog on and off; H3Connection/H0Connection.handle_event must return normally. Every distinct (code, reason) produced, plus very long reasons, is passed to close() on a real connected QUIC pair: datagrams_to_send must not raise and the peer must report termination with that code.",
  "note": "Events are generated only for streams the peer can write to. Exceptions are bucketed by (type, innermost aioquic function). pylsqpack is environment.",
 },
})
CHECKS.update({
 "C01": {
  "technique": "model-based testing in a virtual-time network simulator: Hypothesis-generated application scripts x per-datagram fates against a per-stream byte-log model",
  "text": "Two real QuicConnection endpoints run in a discrete-event simulator that owns the clock and the network. Hypothesis draws the configuration (reno/cubic, v1/v2, small windows), an application script (writes, FIN-only writes, resets, stop-sending, pings, key updates, CID changes, client rebinds; both directions, bidi and uni) and a fate per datagram (delay, drop, duplicate) for a bounded adversarial phase followed by a fair phase. After every event the delivered bytes must be a prefix of the written bytes, with at most one end marker and only after all bytes; at quiescence of the fair phase every byte, FIN and ping must have been delivered; no ConnectionTerminated may occur. Failing cases shrink to a replayable JSON case.",
  "note": "Sampled schedules; liveness is bounded (20 virtual seconds / 6000 events: exhausting it is inconclusive). Trusted: the simulator's cycle (same as the asyncio adapter's), determinism pins (DRBG, deterministic key generation, QuicStream.__hash__).",
 },
 "C02": {
  "technique": "differential testing against an independent RFC 9001/9369 implementation (Hypothesis) + exhaustive enumeration of 8-bit packet-number windows + bit-flip injection",
  "text": "(a) For generated (suite, version, key generation, header, packet number, expected number, payload) tuples aioquic's protected packet must be opened bit-exactly by vlib/refquic.py, equal the reference's own protection, and reference-protected packets (also of the next key phase) must be accepted by aioquic; key derivation, Initial secrets and key updates equal the reference schedule; decode_packet_number equals a brute-force closest-candidate search on every (truncated, expected) pair of 8-bit windows at 30 bases including both ends of the number space, and on sampled 16/24/32-bit cases; every sampled single-bit alteration of a protected packet raises CryptoError. (b) live tamper tasks (when listed in the evidence) alter packets of real flights in front of a real endpoint.",
  "note": "Trusted base: vlib/refquic.py (reproduces RFC 9001 App. A and RFC 9369 App. A vectors in its self-test). Packet sizes are kept within the helpers' 1500-byte limit (beyond is C04).",
 },
 "C17": {
  "technique": "round-trip + differential testing against independent codecs (refquic / reftls), exhaustive boundary sets, Hypothesis-generated messages and mutated bytes",
  "text": "Integers (all boundary neighbourhoods, out-of-range values must raise), ACK frames (every range set over [0,12) exhaustively + sparse random sets), long/short headers (both versions x types x CID lengths 0..20 x token lengths x pn lengths), Retry, Version Negotiation, packets built by QuicPacketBuilder, transport-parameter sets, and all TLS handshake messages are encoded by aioquic and compared byte-for-byte with independent encoders, decoded back (round trip), decoded by the independent decoders, and cross-decoded with reordered extensions. Arbitrary and mutated bytes must raise a documented parse error or decode to a value that re-encodes equivalently, independent of trailing bytes; extensions whose declared length is shorter than their content must be refused.",
  "note": "Trusted: vlib/refquic.py, vlib/reftls.py (self-tests). Emission order of parameters/extensions is a parameter of the reference encoders.",
 },
})
PENDING = {}
