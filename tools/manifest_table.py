CHECKS = {
 "C10": {
  "technique": "exhaustive state-space closure against a set/dict reference model + Hypothesis rule-based machines",
  "text": "Every operation of a bounded alphabet (all (offset,len,fin) frames and resets for streams up to L bytes; all write/get_frame(cap)/ack/loss/reset ops for streams up to W bytes with <=3 outstanding frames; all add/subtract/shift on RangeSet over a small universe) is applied to every reachable implementation state until closure and compared with a reference model written from the statement; long streams (64 KiB) are sampled by rule-based machines. Exhaustive inside the bound, sampled outside; no claim beyond the bound.",
  "note": "Trusted: the reference models in props/C10.py; frames carry the sender's true bytes; the caller contract of the send half as QuicConnection uses it. States after a FIN/reset below already-received data are not explored (statement silent).",
 },
}
CHECKS.update({
 "C08": {
  "technique": "Hypothesis rule-based state machine with a ledger model (invariants after every step)",
  "text": "A rule-based machine drives QuicPacketRecovery (Reno and CUBIC, three packet number spaces) with send / ack(arbitrary range sets incl. never-sent and already-acked numbers) / time advance + loss timer / space discard; every packet carries a recording delivery handler. After every step: bytes_in_flight equals the in-flight packets still tracked and is >= 0, tracked packets equal the ledger, handlers fire at most once (ACKED only for numbers in the ack, never after discard), cwnd >= 2 datagrams, a loss timer exists while ack-eliciting packets are outstanding. Sampled sequences, shrunk on failure.",
  "note": "Caller contract of QuicConnection (monotonic time, increasing packet numbers, timer fired only when due). The wire-level half of the statement (in-flight bytes on the wire vs congestion window) is checked by the simulator-based tasks of this check when present in the evidence.",
 },
 "C14": {
  "technique": "metamorphic testing (re-chunking / interleaving invariance) + round trip, Hypothesis-generated traffic and plans, exhaustive splittings of short streams",
  "text": "A real sending H3Connection (QPACK dynamic table on) produces requests, responses, trailers, pushes, WebTransport streams and datagrams; the recorded per-stream bytes are replayed into fresh receivers under generated splittings and cross-stream interleavings (every splitting for short tails). The normalised events of every plan must equal those of whole in-order delivery and what was submitted; no plan may close the connection.",
  "note": "Only sender-produced (valid) streams; pylsqpack is environment; normal form concatenates adjacent payloads. Sampled plans beyond the exhaustive short-stream part.",
 },
 "C15": {
  "technique": "exhaustive boundary-alphabet enumeration + Hypothesis, judged by an independent validator (two-directional oracle)",
  "text": "All header names/values over a 13-byte boundary alphabet up to length 3 (4 in thorough), all pseudo-header sequences up to length 4 (5) in four contexts, and content-length spellings x body splits x chunkings are delivered through a literal QPACK encoder; an independent validator written from the statement decides for each block whether it may reach the application (delivered => well-formed) and whether it must be refused with H3_MESSAGE_ERROR (malformed => no event + 0x10e).",
  "note": "Blocks refused for reasons beyond the statement, non-1*DIGIT content-length spellings and blocks refused by the QPACK decoder itself are accepted either way. Trusted: props/C15.py validator, vlib/h3bench.py literal encoder.",
 },
 "C16": {
  "technique": "grammar-based + mutation fuzzing with Hypothesis (totality oracle), then differential close over a real connection pair",
  "text": "Per-stream byte sequences for every stream kind and both roles are built from a frame grammar (lying/zero/huge lengths, truncated varints, reserved/duplicate/truncated SETTINGS, malformed MAX_PUSH_ID / PUSH_PROMISE, garbage QPACK, oversized and non-UTF-8 names and values) after valid prefixes from a real sender, randomly chunked and interleaved, with qlog on and off; H3Connection/H0Connection.handle_event must return normally. Every distinct (code, reason) produced, plus very long reasons, is passed to close() on a real connected QUIC pair: datagrams_to_send must not raise and the peer must report termination with that code.",
  "note": "Events are generated only for streams the peer can write to. Exceptions are bucketed by (type, innermost aioquic function). pylsqpack is environment.",
 },
})
CHECKS.update({
 "C01": {
  "technique": "model-based testing in a virtual-time network simulator: Hypothesis-generated application scripts x per-datagram fates against a per-stream byte-log model",
  "text": "Two real QuicConnection endpoints run in a discrete-event simulator that owns the clock and the network. Hypothesis draws the configuration (reno/cubic, v1/v2, small windows), an application script (writes, FIN-only writes, resets, stop-sending, pings, key updates, CID changes, client rebinds; both directions, bidi and uni) and a fate per datagram (delay, drop, duplicate) for a bounded adversarial phase followed by a fair phase. After every event the delivered bytes must be a prefix of the written bytes, with at most one end marker and only after all bytes; at quiescence of the fair phase every byte, FIN and ping must have been delivered; no ConnectionTerminated may occur. Failing cases shrink to a replayable JSON case.",
  "note": "Sampled schedules; liveness is bounded (20 virtual seconds / 6000 events: exhausting it is inconclusive). Trusted: the simulator's cycle (same as the asyncio adapter's), determinism pins (DRBG, deterministic key generation, QuicStream.__hash__).",
 },
 "C02": {
  "technique": "differential testing against an independent RFC 9001/9369 implementation (Hypothesis) + exhaustive enumeration of 8-bit packet-number windows + bit-flip injection",
  "text": "(a) For generated (suite, version, key generation, header, packet number, expected number, payload) tuples aioquic's protected packet must be opened bit-exactly by vlib/refquic.py, equal the reference's own protection, and reference-protected packets (also of the next key phase) must be accepted by aioquic; key derivation, Initial secrets and key updates equal the reference schedule; decode_packet_number equals a brute-force closest-candidate search on every (truncated, expected) pair of 8-bit windows at 30 bases including both ends of the number space, and on sampled 16/24/32-bit cases; every sampled single-bit alteration of a protected packet raises CryptoError. (b) live tamper tasks (when listed in the evidence) alter packets of real flights in front of a real endpoint.",
  "note": "Trusted base: vlib/refquic.py (reproduces RFC 9001 App. A and RFC 9369 App. A vectors in its self-test). Packet sizes are kept within the helpers' 1500-byte limit (beyond is C04).",
 },
 "C17": {
  "technique": "round-trip + differential testing against independent codecs (refquic / reftls), exhaustive boundary sets, Hypothesis-generated messages and mutated bytes",
  "text": "Integers (all boundary neighbourhoods, out-of-range values must raise), ACK frames (every range set over [0,12) exhaustively + sparse random sets), long/short headers (both versions x types x CID lengths 0..20 x token lengths x pn lengths), Retry, Version Negotiation, packets built by QuicPacketBuilder, transport-parameter sets, and all TLS handshake messages are encoded by aioquic and compared byte-for-byte with independent encoders, decoded back (round trip), decoded by the independent decoders, and cross-decoded with reordered extensions. Arbitrary and mutated bytes must raise a documented parse error or decode to a value that re-encodes equivalently, independent of trailing bytes; extensions whose declared length is shorter than their content must be refused.",
  "note": "Trusted: vlib/refquic.py, vlib/reftls.py (self-tests). Emission order of parameters/extensions is a parameter of the reference encoders.",
 },
})
_SIM = "Two real QuicConnection endpoints in a virtual-time discrete-event simulator (the harness owns clock and network); Hypothesis draws configuration, application script and per-datagram fates; every emitted datagram is decrypted by the independent implementation vlib/refquic.py. "
CHECKS.update({
 "C09": {
  "technique": "invariant checking over simulated histories (Hypothesis-generated scripts with close / blackout / idle timeouts / timer jitter)",
  "text": _SIM + "After every API call on a live endpoint get_timer() must be finite; ConnectionTerminated at most once and nothing after it; from the cycle in which an endpoint enters closing/draining it must terminate within 3 x PTO and emit only CONNECTION_CLOSE packets; after a blackout it must terminate at the negotiated idle deadline.",
  "note": "Bounded horizon (15 virtual seconds after the script); 'starting to close' is read from the connection state attribute; fatal protocol errors injected by a key-holding peer are covered by C05's tasks, not here.",
 },
 "C12": {
  "technique": "invariant checking of the decrypted wire over simulated histories (loss / duplication / reordering of data, ACKs and acks of acks)",
  "text": _SIM + "Every packet number in every ACK frame an endpoint emits must belong to the packets of that space the network delivered to it; after handshake completion an ack-eliciting packet carrying the highest number so far in the application space must be covered by an ACK sent within the advertised 25 ms; in the Initial / Handshake spaces by the next packet sent in that space.",
  "note": "'Received and authenticated' is approximated from outside by 'delivered' (sound superset since nothing forged is delivered here). Timers fired exactly when asked; 2 ms simulator slack.",
 },
 "C13": {
  "technique": "invariant checking of emitted datagrams over simulated handshake / migration histories with an independent address-validation model",
  "text": _SIM + "Every datagram <= the sender's max_datagram_size; every client datagram containing an Initial packet and every server datagram containing an ack-eliciting Initial packet (decided with Initial keys) >= 1200 bytes; per remote address of the server, bytes sent <= 3 x bytes received until the harness's own model validates the address (Handshake packet delivered from it, Retry token, or PATH_RESPONSE echoing a challenge sent to it).",
  "note": "Certificate chains of 1..3 certificates, Ed25519 / RSA leaves, max_datagram_size 1200..1452, Retry on/off, client rebinds after handshake confirmation. 0-RTT scenarios are not generated yet.",
 },
})
CHECKS["C08"]["text"] += " Second half: a wire monitor in the network simulator checks for every datagrams_to_send call of real endpoints that the in-flight bytes put on the wire do not exceed the congestion window left before the call (one datagram more when a probe was armed), and that bytes_in_flight equals the tracked in-flight packets."
CHECKS["C08"]["technique"] += " + wire monitor in a virtual-time network simulator"
CHECKS.update({
 "C05": {
  "technique": "stateful generation-based and mutation-based fuzzing with Hypothesis (totality oracle), incl. a key-holding peer built on an independent QUIC implementation",
  "text": "Connection states are produced by real handshakes (fresh server, client after connect, after each handshake flight, connected with streams, after key update / CID change, closing). Inputs: arbitrary datagrams; genuine datagrams mutated, truncated, extended, re-versioned and re-coalesced; packets protected by a key-holding peer (vlib/takeover.py + vlib/refquic.py) carrying frames of every type with boundary values, truncations, unknown / non-minimal types, bursts of hundreds of packets with gaps, NEW_CONNECTION_ID / RETIRE_CONNECTION_ID histories, post-handshake TLS messages, interleaved with timer firings, acknowledgements and application calls. After every input all five public calls are exercised, then timers are run to termination; any escaping exception is a violation, bucketed by (type, innermost aioquic function).",
  "note": "Handshake-time TLS messages from a key-holding TLS peer (missing/duplicate/oversized fields, malformed key shares and certificates) are covered by the tasks named tls-* when present in the evidence. Caller contract: Sans-IO cycle, timers only when due.",
 },
 "C18": {
  "technique": "model-based testing with Hypothesis: histories driven by a key-holding peer against a reference model of both connection-ID sets",
  "text": "After a real handshake the peer is frozen and the harness speaks in its place with the peer's keys (independent implementation): NEW_CONNECTION_ID frames with small sequence numbers (duplicates, reordering) and arbitrary retire_prior_to, RETIRE_CONNECTION_ID, DCID switches among the IDs the SUT issued, local change_connection_id(), withheld acknowledgements (loss), for peer limits 2/3/4/8 and both roles; then a fair phase. The decrypted wire is judged by a model: DCID sequence >= max retire_prior_to processed, no use of an ID after announcing its retirement, every abandoned ID announced in an acknowledged RETIRE frame, <= 8 peer IDs held, outstanding issued IDs <= the peer's limit, each outstanding ID still accepted, retired IDs replaced by delivered NEW frames.",
  "note": "The peer's active_connection_id_limit is set on the genuine peer object before the handshake (not configurable). IDs never adopted may be retired or ignored.",
 },
})
_TK = "After a real handshake the genuine peer is frozen and the harness speaks in its place with the peer's keys through an independent QUIC implementation (vlib/refquic.py), decrypting everything the SUT answers. "
CHECKS.update({
 "C06": {
  "technique": "model-based testing with Hypothesis: sender histories against a key-holding peer, invariant over the decrypted wire history vs limits delivered",
  "text": _TK + "The genuine peer advertised small generated limits (max_data / max_stream_data / stream counts). Hypothesis interleaves SUT application writes around the limits, FINs and resets with peer operations (selective acknowledgements and losses, MAX_DATA / MAX_STREAM_DATA / MAX_STREAMS with increasing, equal and decreasing values, STOP_SENDING, timers). At every emitted packet the highest offset per stream, the sum of highest offsets and the streams opened must be within the limits delivered to the SUT by then; after a fair phase (limits raised just enough, everything acknowledged) every written byte and FIN must have appeared on the wire.",
  "note": "Streams opened in id order; 0-RTT with remembered limits is not generated. Stream-count limits of the genuine peer are set on the object before the handshake.",
 },
 "C07": {
  "technique": "model-based testing with Hypothesis: receive-limit histories from a key-holding peer against a reference model of advertised credit, both directions",
  "text": _TK + "The SUT advertises small limits; its transport parameters and every MAX_* frame are read from the decrypted wire to maintain the advertised credit. STREAM / RESET_STREAM frames are sent with ends at limit-1, limit, limit+1, 2*limit, 2^62-1 relative to the current stream or connection credit, on all stream kinds and around the stream-count limit, with duplicates; a frame that breaks a rule must close with one of the matching codes (0x3 / 0x4 / 0x6), and a peer that breaks none is never accused of them. After every step reassembly buffers, CRYPTO buffering, queued path challenges, pending retirements and peer CIDs held are measured against the advertised / documented bounds.",
  "note": "FIN/RESET below data already received and frames on streams already finished carry no obligation. Buffer sizes are attribute reads.",
 },
})
CHECKS.update({
 "C11": {
  "technique": "exhaustive enumeration (12 states x 256 message types; all bounded flight sequences) driven by a key-holding adversary built on an independent TLS 1.3 implementation, judged by a reference order automaton",
  "text": "Every handshake state of tls.Context is reached by a legitimate prefix against the scriptable reference peers of vlib/reftls.py and fed one message of every type byte: types TLS 1.3 does not permit there must raise the unexpected_message alert, leave the state unchanged and install no key. A reference server that really performs the key exchange then sends every ordered sequence of {EE, CertificateRequest, Certificate, CertificateVerify (genuine / wrong key), Finished} with each message at most twice up to a bounded length, recomputing signatures and MACs over its own transcript (also with a PSK selected, offered-but-not-selected, and a non-offered PSK index); a reference client does the same with the client flight against an aioquic server with and without a certificate request. The aioquic side must complete iff the sequence is the legal one, release ONE_RTT keys only on the accepted Finished and handshake keys only after ServerHello, and never change state on a refused message.",
  "note": "CLIENT_HANDSHAKE_START excluded (not reachable by network input). Trusted base: vlib/reftls.py (anchored by interop with an unmodified aioquic in both roles). Exhaustive within the stated bounds only.",
 },
})
CHECKS.update({
 "C03": {
  "technique": "exhaustive single-byte alteration sweep over every handshake message of 6 handshake variants (sampled positions in quick), a bad-credential / out-of-configuration matrix driven by an independent TLS 1.3 reference server and key-holding QUIC peers, and Hypothesis-generated configuration pairs on the simulated network compared through both endpoints' NSS key logs",
  "text": "(1) Two aioquic tls.Context objects, wired as QuicConnection wires them, run a deterministic handshake (full with Ed25519/RSA/P-256/P-384 leaves and each cipher suite, with client certificate, with PSK resumption); for every message, byte position and mask in {0x01,0x80,0xff} the altered message is delivered to its receiver, which must never reach POST_HANDSHAKE. (2) An aioquic client faces the reference TLS server presenting a wrong-name, expired, not-yet-valid, foreign-CA, self-signed, intermediate-missing certificate, a CertificateVerify by another key, a PSK it does not know, a cipher suite / TLS version / ALPN protocol / PSK identity the client did not offer: no completion; matching controls must complete. (3) A key-holding QUIC peer performs an honest TLS handshake with transport parameters that omit or misstate original_destination_connection_id, initial_source_connection_id, retry_source_connection_id or version_information (both roles, v1 and v2, three key types): no HandshakeCompleted. (4) Generated pairs of configurations (leaf type, ordered cipher-suite sub-lists, version lists and original version, ALPN lists, resumption, Retry, max_datagram_size) under generated loss/duplication/reordering: when both endpoints report HandshakeCompleted their key logs hold identical secrets and version, suite, ALPN, resumption and early-data status agree and lie in both configurations; when the lists share no suite, version or ALPN protocol, neither reports completion.",
  "note": "Completion of compatible pairs is reported (classes), not asserted, except for the lossless controls. Hostile TLS beyond the listed scenarios is C05/C11's subject. Certificate date checks use the pinned clock of the harness only for aioquic's own check; OpenSSL's chain verification uses the real clock, so the expired / not-yet-valid fixtures are decades away from both.",
 },
})
CHECKS.update({
 "C04": {
  "technique": "exhaustive argument grids and Hypothesis-generated call sequences / datagrams / configurations executed against a clang AddressSanitizer+UBSan build of the current C sources, with an argument-derived access contract and known-answer usability checks as oracles",
  "text": "Every task runs in a child interpreter that loads an ASan+UBSan build of the current _buffer.c/_crypto.c (PYTHONMALLOC=malloc so that Python bytes objects are individual heap blocks); a sanitizer report stops the child and the parent reports the case the child had recorded in a memory-mapped file. Grids: AEAD.encrypt/decrypt over plaintext/ciphertext lengths 0..scratch+100 (garbage and genuine), HeaderProtection.apply over header x pn-length bits x payload lengths, HeaderProtection.remove over (packet length, offset) pairs incl. 2^31..2^32 offsets, for the three cipher suites; a call that returns normally although a range it must touch lies outside its argument or the fixed scratch (size read from the source) violates the contract, and after rejected calls a known-answer seal/protect/unprotect/open on the same object must still equal what the fresh object produced. Buffer: every method x boundary integers x capacities x positions (exhaustive over the small sets) and generated sequences of <= 40 calls on capacities 0..64 against a bytearray model: an out-of-bounds access must be refused, a refused call must leave position and capacity unchanged, and a divergence from the model counts only when it disappears once the refused calls are left out. Library paths: generated datagrams (lying token/Length varints, CID lengths to 255, genuine packets sealed by the reference implementation at sizes around the scratch size, sizes to 65535) into endpoints in six states, and handshake + bulk transfer + DATAGRAM frames for max_datagram_size 1200..65535, with contract-checking proxies around every AEAD/HeaderProtection call the library makes.",
  "note": "Blind spot (stated in DESIGN.md): an out-of-bounds *read* performed inside uninstrumented libcrypto that is followed by a rejection (e.g. decrypt of < 16 bytes without the lower-bound test) is visible neither to ASan nor to the contract. Functional disagreement with the reference codec/cipher is counted as a class, not reported here (C02/C17 decide it). Constructors with cipher names the library never uses are out of scope.",
 },
})
CHECKS.update({
 "C20": {
  "technique": "metamorphic paired execution (logging off / qlog / secrets log / both) of Hypothesis-generated deterministic scenarios with a tap on the QuicConnection API; qlog documents checked against the packets actually exchanged",
  "text": "Scenarios are generated from the generators of C01 (simulated networks: loss, duplication, reordering, rebinding, Retry, version negotiation, key update), C05 (frames from a key-holding peer, arbitrary/mutated datagrams in nine states, hostile TLS flights in both roles) and C14/C16 (HTTP/3 traffic in generated chunkings, optionally mutated). Each scenario is a pure function of its case (randomness, key generation and the TLS clock are pinned) and runs four times; logging arguments are injected into every QuicConfiguration the scenario builds. The recorded observation - every event, every datagram byte, every timer value, every exception leaving an API call and a digest of the final connection state (streams, flow control, congestion, RTT, packet spaces, connection IDs) - must be identical in all four modes. With qlog on, json.dumps(QuicLogger.to_dict()) must succeed, packet_sent records must equal the packets in the returned datagrams (type, length, order), packet_received records must match delivered packets, and in simulator scenarios each delivered datagram adds one packet_received/packet_dropped record per packet (up to a record whose trigger abandons the rest of the datagram). Secrets-log lines must be well formed.",
  "note": "A difference is reported only after the baseline has been re-run and reproduced itself and the differing mode has reproduced the difference. qlog timestamps (wall clock) are not compared. The content of logged frames is not compared with the wire (not part of the statement).",
 },
})
PENDING = {}
