#!/venv/bin/python
"""Development tool: prints the markdown tables of DESIGN.md section 9 (mutants and seeded changes) from mutants/*.json and seeded/results.json."""
import glob, json, os

VERIF = os.path.dirname(os.path.dirname(os.path.abspath(__file__)))


def main():
    print("| property | planted textual mutants (`mutants/<id>.json`), all caught by the quick tier |")
    print("|---|---|")
    for f in sorted(glob.glob(os.path.join(VERIF, "mutants", "*.json"))):
        m = json.load(open(f))
        print("| %s | %d: %s |" % (os.path.basename(f)[:-5], len(m), ", ".join(x["name"] for x in m)))
    print()
    res = json.load(open(os.path.join(VERIF, "seeded", "results.json")))
    NOTES = {
        "C08/i": "not caught by the quick tier; caught by the thorough tier (`in-flight-bytes-exceed-congestion-window`, seed 1)",
        "C09/d": "not reported: after repair `ee46eaa` this change no longer violates the property (its demo passes on the current tree)",
        "C12/f": "the patch no longer applies after repair `962aeb8`, which it reverses in part; kept as planted mutants `path-response-before-ack` / `ack-after-path-challenge` (caught)",
    }
    print("| change | what it breaks (author's summary) | confirmed when planted | caught by (quick tier, seed 1) |")
    print("|---|---|---|---|")
    for key in sorted(res):
        pid, v = key.split("/")
        meta = {}
        try:
            meta = json.load(open(os.path.join(VERIF, "seeded", pid, v, "meta.json")))
        except Exception:
            pass
        conf = res[key].get("confirm", {})
        c = "yes" if conf.get("confirmed") else ("no: " + ", ".join("%s=%r" % (k, conf[k]) for k in ("applies", "tests_pass", "demo_with_patch", "demo_without_patch") if k in conf) if conf else "-")
        checks = res[key].get("checks", {})
        caught = [("%s (%s)" % (k, x["violations"][0].split(":")[0].replace("violation ", "")[:70]) if x.get("violations") else k) for k, x in sorted(checks.items()) if x.get("exit") == 1]
        missed = [k for k, x in sorted(checks.items()) if x.get("exit") == 0]
        if key in NOTES:
            print("| %s | %s | %s | %s |" % (key, (meta.get("summary") or "")[:200].replace("|", "/").replace("\n", " "), c, NOTES[key]))
            continue
        print("| %s | %s | %s | %s%s |" % (key, (meta.get("summary") or "")[:200].replace("|", "/").replace("\n", " "), c, "; ".join(caught) or "-", (" (missed by: %s)" % ", ".join(missed)) if missed and not caught else ""))


main()
