#!/opt/veriftools/pyvenv/bin/python
"""Regenerates MANIFEST.json from the table below (development tool)."""
import json, os, sys
VERIF = os.path.dirname(os.path.dirname(os.path.abspath(__file__)))
sys.path.insert(0, VERIF)
from tools.manifest_table import CHECKS, PENDING

props = [json.loads(l)["id"] for l in open(os.path.join(VERIF, "properties.jsonl"))]
checks = []
for pid in props:
    if pid not in CHECKS:
        continue
    c = CHECKS[pid]
    checks.append({
        "property_id": pid,
        "quick_cmd": "./check %s --tier quick" % pid,
        "thorough_cmd": "./check %s --tier thorough" % pid,
        "evidence_file": "evidence/%s.json" % pid,
        "replay_cmd_template": "./check %s --replay {path}" % pid,
        "engine": "pbt-runner",
        "level_claimed": {"category": c.get("category", "exploration"), "text": c["text"], "design_ref": "DESIGN.md section 3, " + pid},
        "level_note": c["note"],
        "technique": c["technique"],
    })
m = {
    "version": 1,
    "setup_cmd": "./setup.sh",
    "hooks": {
        "guard": "AIOQUIC_VERIF",
        "enable": "no source hooks are used: the checks observe aioquic through its public API, the decrypted wire and object attributes; the C helpers are rebuilt from /repo/src/aioquic/*.c into /verif/.build by every check",
        "baseline_off_cmd": "cd /repo && /venv/bin/python -m pytest -ra -q -p no:cacheprovider --timeout=900 --continue-on-collection-errors",
        "source_commits": [],
        "add_only": True,
    },
    "engines": [{
        "name": "pbt-runner",
        "path": "check",
        "serves_properties": [c["property_id"] for c in checks],
        "kind_free_text": "property-based testing / fuzzing runner: Hypothesis (stateless + rule-based machines), exhaustive enumeration of small finite sub-domains, coverage-guided fuzzing (atheris) and ASan/UBSan builds of the C helpers; 16 worker processes; explicit oracles (reference models, independent RFC codecs, differential and metamorphic relations)",
    }],
    "checks": checks,
    "not_applicable": [{"property_id": p, "reason": PENDING.get(p, "check not built yet in this session (see DESIGN.md section 3 for the design); nothing is claimed")} for p in props if p not in CHECKS],
    "notes": "All checks: ./check <id> [--tier quick|thorough] [--seed N] [--replay path]; VERIF_SEED / VERIF_TIER are honoured. Exit 0 held, 1 violation (VIOLATION line), 2 harness error. known_findings.txt lists genuine defects (known:/fixed:).",
}
json.dump(m, open(os.path.join(VERIF, "MANIFEST.json"), "w"), indent=1)
try:
    import jsonschema
    jsonschema.validate(m, json.load(open("/root/.vp/MANIFEST.schema.json")))
    print("MANIFEST.json valid;", len(checks), "checks,", len(m["not_applicable"]), "not claimed")
except ImportError:
    print("written (jsonschema not available here)")
