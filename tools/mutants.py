#!/venv/bin/python
"""Development tool (not a registered check): sensitivity of the checks to planted changes.

    tools/mutants.py C10 [--tier quick] [--only name] [--jobs 4]

mutants/<id>.json is a list of {"name", "file", "old", "new"[, "count"]} textual
replacements against the repository.  Each is applied to a scratch copy of
/repo/src under /dev/shm (removed afterwards); the check runs with
VERIF_REPO pointing at the copy and writes its evidence into the scratch dir.
"""
import argparse, json, os, shutil, subprocess, sys, tempfile, time
from concurrent.futures import ThreadPoolExecutor

VERIF = os.path.dirname(os.path.dirname(os.path.abspath(__file__)))


def run_one(prop, mut, tier, seed, checks):
    d = tempfile.mkdtemp(prefix="verif-mut-", dir="/dev/shm")
    try:
        shutil.copytree("/repo/src", os.path.join(d, "src"), ignore=shutil.ignore_patterns("*.so", "__pycache__"))
        edits = mut.get("edits") or [mut]
        for e in edits:
            p = os.path.join(d, e["file"])
            s = open(p).read()
            n = s.count(e["old"])
            if n != e.get("count", 1):
                return mut["name"], "BAD-MUTANT(old occurs %d times)" % n, 0, ""
            open(p, "w").write(s.replace(e["old"], e["new"]))
        env = dict(os.environ, VERIF_REPO=d, VERIF_EVIDENCE_DIR=d, VERIF_NOSHRINK="1", VERIF_SEED=str(seed), VERIF_OUT=os.path.join(d, "out"))
        res = []
        t0 = time.time()
        for c in checks:
            p = subprocess.run([os.path.join(VERIF, "check"), c, "--tier", tier], env=env, capture_output=True, text=True, cwd=VERIF)
            sigs = [l.strip() for l in p.stdout.splitlines() if l.startswith("  violation")]
            res.append((c, p.returncode, sigs[:2], p.stdout[-1500:] if p.returncode == 2 else ""))
        caught = any(r[1] == 1 for r in res)
        err = any(r[1] == 2 for r in res)
        status = "caught" if caught else ("HARNESS-ERROR" if err else "MISSED")
        detail = "; ".join("%s:%d %s %s" % (c, rc, " | ".join(s)[:200], e[-800:]) for c, rc, s, e in res)
        return mut["name"], status, time.time() - t0, detail
    finally:
        shutil.rmtree(d, ignore_errors=True)
        # remove the build cache entries of this scratch copy
        subprocess.run("grep -l -s %s /dev/null" % d, shell=True)


def main():
    ap = argparse.ArgumentParser()
    ap.add_argument("prop")
    ap.add_argument("--tier", default="quick")
    ap.add_argument("--only", default=None)
    ap.add_argument("--seed", type=int, default=1)
    ap.add_argument("--jobs", type=int, default=3)
    ap.add_argument("--checks", default=None, help="comma separated check ids to run (default: the property itself)")
    a = ap.parse_args()
    muts = json.load(open(os.path.join(VERIF, "mutants", a.prop + ".json")))
    if a.only:
        muts = [m for m in muts if a.only in m["name"]]
    checks = a.checks.split(",") if a.checks else [a.prop]
    with ThreadPoolExecutor(a.jobs) as ex:
        futs = [ex.submit(run_one, a.prop, m, a.tier, a.seed, checks) for m in muts]
        n_c = 0
        for f in futs:
            name, status, wall, detail = f.result()
            n_c += status == "caught"
            print("%-14s %-45s %5.1fs  %s" % (status, name, wall, detail[:1200]))
    print("caught %d / %d" % (n_c, len(muts)))
    # clean build dirs created for scratch copies
    b = os.path.join(VERIF, ".build")
    keep = set()
    for n in os.listdir(b):
        q = os.path.join(b, n, "aioquic", "buffer.py")
        if os.path.islink(q) and not os.path.exists(q):
            shutil.rmtree(os.path.join(b, n), ignore_errors=True)


main()
