#!/venv/bin/python
"""Development tool: replay a simulator case and print a per-datagram trace.
   tools/trace.py <replay.json> [t_from] [t_to]"""
import sys, json, os
sys.path.insert(0, os.path.dirname(os.path.dirname(os.path.abspath(__file__))))
from vlib import build; build.activate()
from vlib import simnet, simchecks, harness, findings
import logging; logging.disable(logging.CRITICAL)
r = json.load(open(sys.argv[1])); prop = r.get("property", "C01")
t0 = float(sys.argv[2]) if len(sys.argv) > 2 else 0.0
t1 = float(sys.argv[3]) if len(sys.argv) > 3 else 1e9
ctx = harness.Ctx(prop, "quick", 1, "t", findings.Findings.load()); ctx.collect_all = True
case = harness.unjson(r["case"])
print(r.get("text")); print("cfg", case["cfg"])
for o in case["script"]: print("  op", o)
class Tr(simnet.Monitor):
    def on_datagram_out(self, sim, x, data, addr, now):
        if t0 <= now <= t1:
            c = sim.ep[x].conn
            print("%.4f OUT %s->%s len=%d %s cwnd=%d bif=%d" % (now, x, addr, len(data), [(p.ptype, p.pn, p.names() if p.frames is not None else "?") for p in sim.wire.last(x)], c._loss.congestion_window, c._loss.bytes_in_flight))
    def on_datagram_in(self, sim, x, data, addr, now):
        if t0 <= now <= t1: print("%.4f IN  %s<-%s len=%d" % (now, x, addr, len(data)))
    def on_timer(self, sim, x, now, d):
        if t0 <= now <= t1: print("%.4f TIMER %s (asked %.4f)" % (now, x, d))
    def on_event(self, sim, x, e, now):
        if t0 <= now <= t1: print("%.4f EVENT %s %s" % (now, x, str(e)[:120]))
    def on_api(self, sim, x, name, a):
        if t0 <= sim.now <= t1: print("%.4f API %s %s %s" % (sim.now, x, name, {k: (v if not isinstance(v, (bytes, bytearray)) else len(v)) for k, v in a.items()}))
sim = simnet.Sim(case, ctx, monitors=simchecks.monitors_for(prop) + [Tr()], observe=True)
sim.run()
print("violations:", [(v["signature"], v["text"][:200]) for v in ctx.violations]); print("stats", dict(sim.stats))
