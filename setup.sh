#!/bin/sh
# Offline setup: everything from files on disk.
set -e
cd "$(dirname "$0")"
export PIP_NO_INDEX=1
if ! /venv/bin/python -c "import hypothesis" 2>/dev/null; then
  /venv/bin/pip install --no-index --find-links /opt/veriftools/wheels hypothesis
fi
mkdir -p .deps
if ! PYTHONPATH=.deps /venv/bin/python -c "import atheris" 2>/dev/null; then
  /venv/bin/pip install --no-index --find-links /opt/veriftools/wheels --target .deps atheris >/dev/null 2>&1 || echo "setup: atheris not installable here (fuzz tiers will be skipped)"
fi
# build the C helpers of the current tree (plain + sanitizer flavours) and self-test the reference codecs
/venv/bin/python -B -c "
import sys; sys.path.insert(0, '.')
from vlib import build
print('plain:', build.shadow('plain'))
print('asan :', build.shadow('asan'))
"
# trust anchors of the reference implementations (RFC 9001 / 9369 vectors, TLS 1.3 interop); a failure is reported, the checks that depend
# on them would then fail on their own controls
/venv/bin/python -B vlib/refquic_selftest.py >/dev/null 2>&1 && echo "refquic self-test ok" || echo "setup: WARNING refquic self-test failed"
/venv/bin/python -B vlib/reftls_selftest.py >/dev/null 2>&1 && echo "reftls self-test ok" || echo "setup: WARNING reftls self-test failed"
echo setup ok
