#!/bin/sh
# Offline setup: everything from files on disk.
set -e
cd "$(dirname "$0")"
export PIP_NO_INDEX=1
if ! /venv/bin/python -c "import hypothesis" 2>/dev/null; then
  /venv/bin/pip install --no-index --find-links /opt/veriftools/wheels hypothesis
fi
mkdir -p .deps
if ! PYTHONPATH=.deps /venv/bin/python -c "import atheris" 2>/dev/null; then
  /venv/bin/pip install --no-index --find-links /opt/veriftools/wheels --target .deps atheris >/dev/null 2>&1 || echo "setup: atheris not installable here (fuzz tiers will be skipped)"
fi
# build the C helpers of the current tree (plain + sanitizer flavours) and self-test the reference codecs
/venv/bin/python -B -c "
import sys; sys.path.insert(0, '.')
from vlib import build
print('plain:', build.shadow('plain'))
print('asan :', build.shadow('asan'))
"
if [ -f vlib/selftest.py ]; then /venv/bin/python -B vlib/selftest.py; fi
echo setup ok
