import sys, copy, collections, time
sys.path.insert(0,"/repo/src")
from aioquic.quic.stream import QuicStreamReceiver, FinalSizeError
from aioquic.quic.packet import QuicStreamFrame
L=int(sys.argv[1])
REF=bytes(range(1,L+1))
ops=[("f",o,n,fin) for o in range(L+1) for n in range(L-o+1) for fin in (0,1)] + [("r",fs) for fs in range(L+1)]
def key(r): return (r._buffer_start, bytes(r._buffer), tuple((x.start,x.stop) for x in r._ranges), r._final_size, r.is_finished, r.highest_offset)
class M:
    __slots__=("have","final","delivered","reset","eos")
    def __init__(s): s.have=frozenset(); s.final=None; s.delivered=0; s.reset=False; s.eos=False
    def k(s): return (s.have,s.final,s.delivered,s.reset,s.eos)
def prefix(have):
    n=0
    while n in have: n+=1
    return n
start=(QuicStreamReceiver(stream_id=0, readable=True), M())
seen={ (key(start[0]), start[1].k()) : None}
q=collections.deque([start]); trans=0; disagreements=collections.Counter(); dontcare=0
t0=time.time()
while q:
    r,m=q.popleft()
    for op in ops:
        r2=copy.deepcopy(r); m2=copy.copy(m); trans+=1
        if op[0]=="f":
            _,o,n,fin=op; end=o+n
            hi=max(m.have)+1 if m.have else 0
            exp_err = m.final is not None and (end>m.final or (fin and end!=m.final))
            silent = m.final is None and fin and end < hi   # statement silent
            try:
                ev=r2.handle_frame(QuicStreamFrame(offset=o,data=REF[o:end],fin=bool(fin))); err=False
            except FinalSizeError: err=True
            if silent:
                dontcare+=1
                if err: continue
            elif err!=exp_err:
                disagreements[("err",op,m.k()[1:],err,exp_err)]+=1; continue
            if err: continue
            m2.have=m.have|frozenset(range(o,end))
            if fin and m.final is None: m2.final=end
            p=prefix(m2.have)
            got = ev.data if ev else b""
            if got != REF[m.delivered:max(p,m.delivered)] : disagreements[("data",op,m.k(),got)]+=1; continue
            m2.delivered=max(p,m.delivered)
            if not m.reset:
                eos = ev.end_stream if ev else False
                if eos != (m2.final is not None and m2.delivered==m2.final) and not (ev is None and m2.final is not None and m2.delivered==m2.final and m.eos):
                    disagreements[("eos",op,m.k(),eos)]+=1; continue
                m2.eos = m.eos or eos
        else:
            fs=op[1]
            exp_err = m.final is not None and fs!=m.final
            hi=max(m.have)+1 if m.have else 0
            silent = m.final is None and fs<hi
            try: ev=r2.handle_reset(final_size=fs); err=False
            except FinalSizeError: err=True
            if silent:
                dontcare+=1
                if err: continue
            elif err!=exp_err: disagreements[("rerr",op,m.k(),err)]+=1; continue
            if err: continue
            m2.final=fs if m.final is None else m.final; m2.reset=True
        k=(key(r2), m2.k())
        if k not in seen:
            seen[k]=None; q.append((r2,m2))
print("L",L,"ops",len(ops),"states",len(seen),"transitions",trans,"dontcare",dontcare,"time",round(time.time()-t0,1))
for k,v in list(disagreements.items())[:8]: print(v,k)
print("disagreement kinds", collections.Counter(k[0] for k in disagreements))
