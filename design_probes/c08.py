import sys, random, collections, time, math
sys.path.insert(0, "/repo/src")
from aioquic.quic.recovery import QuicPacketRecovery, QuicPacketSpace
from aioquic.quic.packet_builder import QuicSentPacket, QuicDeliveryState
from aioquic.quic.packet import QuicPacketType
from aioquic.quic.rangeset import RangeSet
from aioquic import tls
bad=collections.Counter(); ex={}; t0=time.time(); steps=0
for seed in range(int(sys.argv[1])):
    rnd=random.Random(seed)
    cc=rnd.choice(["reno","cubic"]); mds=rnd.choice([1200,1350])
    probes=[0]
    rec=QuicPacketRecovery(congestion_control_algorithm=cc, initial_rtt=0.1, max_datagram_size=mds, peer_completed_address_validation=rnd.random()<0.5, send_probe=lambda: probes.__setitem__(0,probes[0]+1))
    spaces=[QuicPacketSpace() for _ in range(3)]; rec.spaces=spaces
    now=0.0; pn=0; fired=collections.Counter(); discarded=set(); log=[]
    def check(tag):
        infl=sum(p.sent_bytes for s in spaces for p in s.sent_packets.values() if p.in_flight)
        if rec.bytes_in_flight!=infl: raise AssertionError(f"bif {rec.bytes_in_flight} != {infl} after {tag}")
        if rec.bytes_in_flight<0: raise AssertionError("neg bif")
        if rec.congestion_window < 2*mds: raise AssertionError(f"cwnd {rec.congestion_window} < 2*mds after {tag}")
        for i,s in enumerate(spaces):
            cnt=sum(1 for p in s.sent_packets.values() if p.is_ack_eliciting)
            if s.ack_eliciting_in_flight!=cnt: raise AssertionError(f"ack_eliciting_in_flight {s.ack_eliciting_in_flight}!={cnt} after {tag}")
        if any(v>1 for v in fired.values()): raise AssertionError(f"handler fired twice after {tag}")
    try:
        for step in range(rnd.randint(5,80)):
            steps+=1
            r=rnd.random()
            live=[i for i in range(3) if i not in discarded]
            if not live: break
            if r<0.45:
                si=rnd.choice(live); ae=rnd.random()<0.8; infl=ae or rnd.random()<0.3
                p=QuicSentPacket(epoch=tls.Epoch.ONE_RTT, in_flight=infl, is_ack_eliciting=ae, is_crypto_packet=rnd.random()<0.3, packet_number=pn, packet_type=QuicPacketType.ONE_RTT, sent_time=now, sent_bytes=rnd.choice([20,100,mds]))
                def h(state, n=pn, si=si): 
                    fired[n]+=1
                    if si in discarded: raise AssertionError("handler after discard")
                p.delivery_handlers.append((h,()))
                rec.on_packet_sent(packet=p, space=spaces[si]); pn+=rnd.choice([1,1,2]); log.append(("send",si,p.packet_number)); check("send")
            elif r<0.75:
                si=rnd.choice(live); rs=RangeSet()
                for _ in range(rnd.randint(1,4)):
                    a=rnd.randrange(0, pn+5); rs.add(a, a+rnd.randint(1,6))
                rec.on_ack_received(ack_rangeset=rs, ack_delay=rnd.choice([0,0.01,5.0]), now=now, space=spaces[si]); log.append(("ack",si,list(rs))); check("ack")
            elif r<0.9:
                now+=rnd.choice([0.0001,0.01,0.1,1.0,3.0])
                t=rec.get_loss_detection_time()
                if t is not None and now>=t:
                    rec.on_loss_detection_timeout(now=now); log.append(("timeout",now)); check("timeout")
            elif r<0.95:
                now+=rnd.choice([0.001,0.05])
            else:
                si=rnd.choice(live); rec.discard_space(spaces[si]); discarded.add(si); log.append(("discard",si)); check("discard")
            t=rec.get_loss_detection_time()
            if sum(s.ack_eliciting_in_flight for s in spaces)>0 and (t is None or not math.isfinite(t)): raise AssertionError("no loss timer with ack-eliciting outstanding")
    except AssertionError as e:
        k=str(e).split(" after ")[0][:40] if "bif" not in str(e) else "bif mismatch"; bad[k]+=1; ex.setdefault(k,(seed,str(e),log[-4:]))
    except Exception as e:
        k="EXC "+type(e).__name__+" "+str(e)[:50]; bad[k]+=1; ex.setdefault(k,(seed,log[-4:]))
print("steps",steps,"time",round(time.time()-t0,1),dict(bad))
for k,v in ex.items(): print(k,v)
