#!/bin/sh
# Throw-away probe for DESIGN.md section 5 item 10/11: builds the current C
# sources with ASan+UBSan into a scratch dir and calls the helpers directly.
# NOT part of the machinery. Usage: sh asan_probe.sh {remove_bigoff|remove_short|enc1500|bufneg}
set -e
D=$(mktemp -d /tmp/asanprobe.XXXX); trap 'rm -rf "$D"' EXIT
mkdir -p "$D/aioquic"
INC=$(/venv/bin/python -c "import sysconfig; print(sysconfig.get_paths()['include'])")
for m in _buffer _crypto; do
  L=""; [ $m = _crypto ] && L=-lcrypto
  clang -shared -fPIC -O1 -g -fno-omit-frame-pointer -fsanitize=address,undefined \
    -fno-sanitize=pointer-overflow -std=c99 -DPy_LIMITED_API=0x030A0000 -I"$INC" \
    /repo/src/aioquic/$m.c -o "$D/aioquic/$m.abi3.so" $L
done
for f in /repo/src/aioquic/*.py; do ln -s "$f" "$D/aioquic/"; done
for d in asyncio h0 h3 quic; do ln -s /repo/src/aioquic/$d "$D/aioquic/$d"; done
cat > "$D/t.py" <<PY
import sys; sys.path.insert(0, "$D")
from aioquic._crypto import AEAD, HeaderProtection
from aioquic._buffer import Buffer
w = sys.argv[1]
hp = HeaderProtection(b"aes-128-ecb", bytes(16)); a = AEAD(b"aes-128-gcm", bytes(16), bytes(12))
if w == "remove_bigoff": print(hp.remove(bytes(3000), 2000)[1])     # heap overflow (ASan)
if w == "remove_short":  print(hp.remove(bytes(10), 6))              # over-read inside libcrypto: ASan silent
if w == "enc1500":       print(len(a.encrypt(bytes(1500), b"h", 1))) # 1516: tag written over key[] (intra-object)
if w == "bufneg":        b = Buffer(capacity=-1); b.push_uint8(1)   # NULL store
PY
LD_PRELOAD=$(clang -print-file-name=libclang_rt.asan-x86_64.so) \
ASAN_OPTIONS=detect_leaks=0:allocator_may_return_null=1 PYTHONMALLOC=malloc \
/venv/bin/python "$D/t.py" "$1" 2>&1 | grep -vE '^    #([2-9]|[1-9][0-9]) ' | head -20
