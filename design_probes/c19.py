import asyncio, sys, random, time
sys.path.insert(0, "/repo/src"); sys.path.insert(0, "/repo")
from aioquic.asyncio import connect, serve
from aioquic.quic.configuration import QuicConfiguration
from tests.utils import SERVER_CERTFILE, SERVER_KEYFILE, SERVER_CACERTFILE

class _Sel:
    def __init__(self, loop): self.loop = loop
    def select(self, timeout):
        if timeout is None: raise RuntimeError("deadlock: nothing scheduled")
        self.loop._vt += max(timeout, 0) + 1e-6
        return []
    def close(self): pass

class Net:
    def __init__(self, loop, rnd): self.loop=loop; self.rnd=rnd; self.ports={}; self.stats={"sent":0,"drop":0,"dup":0}
    def send(self, src, dst, data):
        self.stats["sent"]+=1
        dst=(dst[0].replace("::ffff:",""), dst[1])
        tr=self.ports.get(dst)
        if tr is None: return
        r=self.rnd.random()
        copies = 0 if r<0.15 else (2 if r<0.25 else 1)
        if copies==0: self.stats["drop"]+=1
        if copies==2: self.stats["dup"]+=1
        for _ in range(copies):
            self.loop.call_later(self.rnd.uniform(0.001,0.08), tr._deliver, data, src)

class MemTransport(asyncio.DatagramTransport):
    def __init__(self, net, addr, protocol): super().__init__(); self.net=net; self.addr=addr; self.protocol=protocol; self.closed=False
    def sendto(self, data, addr=None): 
        if not self.closed: self.net.send(self.addr, addr, bytes(data))
    def _deliver(self, data, src):
        if not self.closed: self.protocol.datagram_received(data, src)
    def close(self): self.closed=True; self.net.ports.pop(self.addr, None)
    def get_extra_info(self, name, default=None): return default

class VLoop(asyncio.BaseEventLoop):
    def __init__(self, rnd):
        super().__init__(); self._vt = 0.0; self._selector = _Sel(self); self.net=Net(self, rnd); self._next_port=50000; self.exc=[]
        self.set_exception_handler(lambda l,c: self.exc.append(c))
    def time(self): return self._vt
    def _process_events(self, evs): pass
    def _write_to_self(self): pass
    async def getaddrinfo(self, host, port, **kw):
        import socket
        return [(socket.AF_INET, socket.SOCK_DGRAM, 17, "", ("10.0.0.1", port))]
    async def create_datagram_endpoint(self, protocol_factory, local_addr=None, sock=None, **kw):
        if sock is not None: sock.close()
        if local_addr is None: local_addr=("10.0.0.2", self._next_port); self._next_port+=1
        else: local_addr=("10.0.0.1", local_addr[1])
        proto=protocol_factory(); tr=MemTransport(self.net, local_addr, proto); self.net.ports[local_addr]=tr
        proto.connection_made(tr); return tr, proto

async def scenario(rnd, results):
    scfg=QuicConfiguration(is_client=False); scfg.load_cert_chain(SERVER_CERTFILE, SERVER_KEYFILE)
    def handler(reader, writer):
        async def echo():
            data=await reader.read()
            writer.write(data[::-1]); writer.write_eof()
        asyncio.ensure_future(echo())
    server=await serve("10.0.0.1", 4433, configuration=scfg, stream_handler=handler)
    async def client(i):
        ccfg=QuicConfiguration(is_client=True); ccfg.load_verify_locations(cafile=SERVER_CACERTFILE); ccfg.server_name="localhost"
        try:
            async with connect("server.test", 4433, configuration=ccfg) as proto:
                await proto.ping()
                r,w=await proto.create_stream()
                msg=bytes(rnd.randrange(256) for _ in range(rnd.choice([1,100,5000])))
                w.write(msg); w.write_eof()
                got=await asyncio.wait_for(r.read(), 50)
                results.append(("ok" if got==msg[::-1] else "MISMATCH", i, len(msg)))
        except Exception as e:
            results.append(("exc", i, type(e).__name__, str(e)[:60]))
    await asyncio.gather(*[client(i) for i in range(2)])
    results.append(("routes_after", len(server._protocols)))
    await asyncio.sleep(100)
    results.append(("routes_end", len(server._protocols)))
    server.close()

tot={}; t0=time.time()
for seed in range(int(sys.argv[1])):
    rnd=random.Random(seed); loop=VLoop(rnd); asyncio.set_event_loop(loop); results=[]
    try: loop.run_until_complete(scenario(rnd, results))
    except Exception as e: results.append(("LOOPEXC", type(e).__name__, str(e)[:80]))
    key=tuple(sorted(set((r[0],)+tuple(r[2:3]) if r[0] in("exc",) else (r[0],)+((r[1],) if r[0].startswith("routes") else ()) for r in results)))
    excs=tuple(sorted(set(type(c.get("exception")).__name__+":"+str(c.get("exception"))[:50] for c in loop.exc)))
    tot[(key,excs)]=tot.get((key,excs),0)+1
    loop.close()
print("time", round(time.time()-t0,1))
for k,v in sorted(tot.items(), key=lambda x:-x[1]): print(v,k)
