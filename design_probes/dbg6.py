import sys
seed=int(sys.argv[1]); sid=int(sys.argv[2]); sys.argv=["x"]
import sim
from sim import *
import aioquic.quic.connection as C
o=C.QuicConnection._handle_stream_frame
def h(self, ctx, ft, buf):
    pos=buf.tell()
    try:
        return o(self, ctx, ft, buf)
    finally:
        pass
o2=C.QuicConnection._write_stream_frame
def w(self, builder, space, stream, max_offset):
    r=o2(self, builder, space, stream, max_offset)
    if stream.stream_id==sid: print("WRITE_STREAM_FRAME", "C" if self._is_client else "S", "sid", sid, "used", r, "pn", builder.packet_number, "blocked", stream.is_blocked)
    return r
C.QuicConnection._write_stream_frame=w
import aioquic.quic.stream as S
o3=S.QuicStreamReceiver.handle_frame
def hf(self, frame):
    r=o3(self, frame)
    if self._stream_id==sid: print("HANDLE_FRAME sid", sid, "off", frame.offset, "len", len(frame.data), "fin", frame.fin, "->", r)
    return r
S.QuicStreamReceiver.handle_frame=hf
o4=C.QuicConnection._get_or_create_stream
def g(self, ft, s):
    try: return o4(self, ft, s)
    except Exception as e:
        if s==sid: print("GET_OR_CREATE sid", sid, "raised", type(e).__name__, "C" if self._is_client else "S", "max_streams", self._local_max_streams_bidi.value)
        raise
C.QuicConnection._get_or_create_stream=g
o5=S.QuicStreamSender.on_data_delivery
def od(self, delivery, start, stop, fin):
    if self._stream_id==sid: print("ON_DATA_DELIVERY", delivery, start, stop, fin, "pending_eof_before", self._pending_eof, "buffer_is_empty", self.buffer_is_empty)
    r=o5(self, delivery, start, stop, fin)
    if self._stream_id==sid: print("   after: pending_eof", self._pending_eof, "buffer_is_empty", self.buffer_is_empty, "finished", self.is_finished)
    return r
S.QuicStreamSender.on_data_delivery=od
o6=S.QuicStreamSender.get_frame
def gf(self, max_size, max_offset=None):
    r=o6(self, max_size, max_offset)
    if self._stream_id==sid: print("GET_FRAME", max_size, max_offset, "->", r, "buffer_is_empty", self.buffer_is_empty)
    return r
S.QuicStreamSender.get_frame=gf
try: print(run_case(seed, dup=False))
except Exception as e: print("RESULT", e)
