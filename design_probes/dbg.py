import sys
_seed=sys.argv[1:]; sys.argv=["x"]+_seed
import sim
from sim import *
# instrument: find what timer source is stuck for seed 80
import aioquic.quic.connection as C
orig = C.QuicConnection.get_timer
cnt = collections.Counter()
def gt(self):
    t = orig(self)
    src = []
    if self._close_at == t: src.append("close")
    if self._loss_at == t: src.append("loss")
    if self._pacing_at == t: src.append("pacing")
    for i,s in enumerate(self._loss.spaces):
        if s.ack_at == t: src.append(f"ack{i}")
    cnt[(self._is_client, tuple(src), round(t,4))]+=1
    return t
C.QuicConnection.get_timer = gt
import sys as _s
try: run_case(int(_s.argv[1]) if len(_s.argv)>1 else 80, dup=False, rebind=True)
except Exception as e: print(e)
print(cnt.most_common(5))
