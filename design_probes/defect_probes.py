"""
Throw-away probes that reproduce the defects listed in DESIGN.md section 5 on the
unchanged tree. NOT part of the verification machinery: nothing here is
registered in MANIFEST.json or imported by any check. Uses the helpers and the
test certificates of /repo/tests.

    cd /repo && /venv/bin/python /verif/design_probes/defect_probes.py
"""
import sys
import time

sys.path.insert(0, "/repo")
from tests.test_connection import *  # noqa: F401,F403  (client_and_server, transfer, ...)
from tests.test_h3 import FakeQuicConnection

from aioquic import tls as T
from aioquic.buffer import Buffer, encode_uint_var
from aioquic.h0.connection import H0Connection
from aioquic.h3.connection import FrameType, H3Connection, encode_frame
from aioquic.quic.crypto import CryptoPair
from aioquic.quic.events import StreamDataReceived
from aioquic.quic.packet_builder import QuicPacketBuilder


def evs(c):
    out = []
    while True:
        e = c.next_event()
        if e is None:
            return out
        out.append(e)


def probe(name, fn):
    try:
        print("PROBE", name, "->", fn())
    except BaseException as e:  # noqa
        print("PROBE", name, "EXC", type(e).__name__, e)


# --- QUIC ---------------------------------------------------------------------
def dup_fin():  # 1
    with client_and_server() as (client, server):
        evs(client), evs(server)
        client.send_stream_data(0, b"hello", end_stream=True)
        dgs = client.datagrams_to_send(now=time.time())
        for _ in range(2):
            for d, a in dgs:
                server.receive_datagram(d, CLIENT_ADDR, now=time.time())
        return [e for e in evs(server) if isinstance(e, events.StreamDataReceived)]


def first_flight():  # 2
    server = create_standalone_server(None)
    b = QuicPacketBuilder(
        host_cid=bytes(8), peer_cid=bytes(8), version=1, is_client=True,
        max_datagram_size=1200,
    )
    cp = CryptoPair()
    cp.setup_initial(b"wrongcid", is_client=True, version=1)
    b.start_packet(QuicPacketType.INITIAL, cp)
    buf = b.start_frame(QuicFrameType.CRYPTO, capacity=10)
    buf.push_bytes(bytes(50))
    dg, _ = b.flush()
    server.receive_datagram(dg[0], CLIENT_ADDR, now=0.0)
    server.receive_datagram(bytes([0x40]) + bytes(48), CLIENT_ADDR, now=0.0)
    return "ok"


def ncid_index_error():  # 3
    with client_and_server() as (client, server):
        ctx = client_receive_context(client)
        client._peer_cid_available = []
        client._peer_cid_sequence_numbers = set([0])
        for seq in (2, 1):
            client._handle_new_connection_id_frame(
                ctx, 0x18,
                new_connection_id(sequence_number=seq, connection_id=bytes([seq] * 8)),
            )
        client.change_connection_id()
        client.change_connection_id()
        client._handle_new_connection_id_frame(
            ctx, 0x18,
            new_connection_id(sequence_number=2, retire_prior_to=2,
                              connection_id=bytes([2] * 8)),
        )
        return "ok"


def many_ack_ranges():  # 4
    with client_and_server() as (client, server):
        space = server._spaces[tls.Epoch.ONE_RTT]
        for pn in range(100, 100 + 2 * 700, 2):
            space.ack_queue.add(pn)
        space.largest_received_packet = 100 + 2 * 700
        space.largest_received_time = time.time()
        space.ack_at = 0.0
        return len(server.datagrams_to_send(now=time.time()))


def long_reason():  # 5
    with client_and_server() as (client, server):
        client.close(error_code=0x10E, reason_phrase="x" * 2000)
        return len(client.datagrams_to_send(now=time.time()))


# --- TLS ----------------------------------------------------------------------
def tls_no_usable_key_share():  # 6
    client = T.Context(is_client=True)
    client._supported_groups = [T.Group.GREASE]
    server = T.Context(is_client=False)
    cfg = QuicConfiguration(is_client=False)
    cfg.load_cert_chain(SERVER_CERTFILE, SERVER_KEYFILE)
    server.certificate = cfg.certificate
    server.certificate_private_key = cfg.private_key

    def bufs():
        return {e: Buffer(capacity=4096)
                for e in (T.Epoch.INITIAL, T.Epoch.HANDSHAKE, T.Epoch.ONE_RTT)}

    cb = bufs()
    client.handle_message(b"", cb)
    server.handle_message(cb[T.Epoch.INITIAL].data, bufs())
    return "ok"


def tls_lying_extension_length():  # 12
    b = Buffer(capacity=512)
    T.push_server_hello(b, T.ServerHello(
        random=bytes(32), legacy_session_id=b"", cipher_suite=0x1301,
        compression_method=0, key_share=(0x1D, bytes(32)), supported_version=0x0304))
    raw = bytearray(b.data)
    i = raw.find(bytes([0, 0x2B, 0, 2, 3, 4]))
    raw[i + 3] = 9  # supported_versions claims 9 bytes, holds 2
    return T.pull_server_hello(Buffer(data=bytes(raw))).supported_version


# --- HTTP ---------------------------------------------------------------------
def h3_server():
    q = FakeQuicConnection(configuration=QuicConfiguration(is_client=False))
    return q, H3Connection(q)


def h3_client():
    q = FakeQuicConnection(configuration=QuicConfiguration(is_client=True))
    return q, H3Connection(q)


def h3_control(payload):  # 7
    q, h = h3_server()
    h.handle_event(StreamDataReceived(
        stream_id=2, data=encode_uint_var(0) + encode_frame(FrameType.SETTINGS, b""),
        end_stream=False))
    return h.handle_event(StreamDataReceived(stream_id=2, data=payload, end_stream=False))


def h3_empty_push_promise():  # 7
    q, h = h3_client()
    return h.handle_event(StreamDataReceived(
        stream_id=0, data=encode_frame(FrameType.PUSH_PROMISE, b""), end_stream=False))


def h0_request_without_space():  # 7
    q = FakeQuicConnection(configuration=QuicConfiguration(is_client=False))
    return H0Connection(q).handle_event(
        StreamDataReceived(stream_id=0, data=b"GET\r\n", end_stream=False))


def h3_truncated_data_chunking():  # 8
    out = []
    for chunks in ([b"\x00\x0a12345"], [b"\x00\x0a12", b"345"]):
        qs, hs = h3_server()
        qc, hc = h3_client()
        hc.send_headers(0, [(b":method", b"GET"), (b":scheme", b"https"),
                            (b":authority", b"a"), (b":path", b"/")])
        ev = []
        for item in qc.stream_queue:
            ev += hs.handle_event(item)
        for i, c in enumerate(chunks):
            ev += hs.handle_event(StreamDataReceived(
                stream_id=0, data=c, end_stream=(i == len(chunks) - 1)))
        out.append([(type(e).__name__, getattr(e, "data", None), e.stream_ended)
                    for e in ev])
    return out


def qlog_non_utf8_header():  # 9 (FakeQuicConnection always has a qlog trace)
    qc, hc = h3_client()
    hc.send_headers(0, [(b":method", b"GET"), (b":scheme", b"https"),
                        (b":authority", b"a"), (b":path", b"/"), (b"x", b"\xff")])
    return "ok"


# --- Buffer -------------------------------------------------------------------
def narrowing():  # 11
    out = {}
    for m, v in [("push_uint8", 256), ("push_uint8", -1), ("push_uint16", 65536),
                 ("push_uint32", 2**32 + 7), ("push_uint64", 2**64 + 5),
                 ("push_uint_var", 2**64 + 1)]:
        b = Buffer(capacity=16)
        getattr(b, m)(v)
        out[f"{m}({v})"] = b.data.hex()
    return out


if __name__ == "__main__":
    probe("1 duplicated FIN datagram", dup_fin)
    probe("2 bad Initial then short header on fresh server", first_flight)
    probe("3 NEW_CONNECTION_ID without spare CID", ncid_index_error)
    probe("4 700 ACK ranges", many_ack_ranges)
    probe("5 close reason longer than a datagram", long_reason)
    probe("6 ClientHello with GREASE-only key share", tls_no_usable_key_share)
    probe("7 MAX_PUSH_ID trailing byte", lambda: h3_control(encode_frame(FrameType.MAX_PUSH_ID, b"\x01\x02")))
    probe("7 MAX_PUSH_ID truncated", lambda: h3_control(encode_frame(FrameType.MAX_PUSH_ID, b"\x40")))
    probe("7 SETTINGS truncated", lambda: H3Connection(FakeQuicConnection(configuration=QuicConfiguration(is_client=False))).handle_event(
        StreamDataReceived(stream_id=2, data=encode_uint_var(0) + encode_frame(FrameType.SETTINGS, b"\x06"), end_stream=False)))
    probe("7 empty PUSH_PROMISE", h3_empty_push_promise)
    probe("7 H0 request line without space", h0_request_without_space)
    probe("8 truncated DATA frame, two chunkings", h3_truncated_data_chunking)
    probe("9 qlog with non-UTF-8 header value", qlog_non_utf8_header)
    probe("11 integer narrowing", narrowing)
    probe("12 ServerHello extension_length lie accepted", tls_lying_extension_length)
