import sys, heapq, random, os, hashlib, traceback, collections
sys.path.insert(0, "/repo/src"); sys.path.insert(0, "/repo")
from aioquic.quic.configuration import QuicConfiguration
from aioquic.quic.connection import QuicConnection
from aioquic.quic import events
from aioquic.quic.stream import QuicStream
from aioquic.quic.packet import QuicProtocolVersion
from tests.utils import SERVER_CERTFILE, SERVER_KEYFILE, SERVER_CACERTFILE
QuicStream.__hash__ = lambda self: hash(self.stream_id)

_scfg = QuicConfiguration(is_client=False); _scfg.load_cert_chain(SERVER_CERTFILE, SERVER_KEYFILE)
CERT, KEY = _scfg.certificate, _scfg.private_key

CA=("1.2.3.4",1234); CA2=("1.2.3.9",999); SA=("2.3.4.5",4433)

def data_for(sid, off, n):
    return bytes(((sid*7+ (off+i)*13) & 0xff) for i in range(n))

KU=False
NOFINONLY=True
class Violation(Exception): pass

def run_case(seed, dup=True, rebind=False, verbose=False):
    rnd = random.Random(seed)
    cc = rnd.choice(["reno","cubic"]); ver = rnd.choice([QuicProtocolVersion.VERSION_1, QuicProtocolVersion.VERSION_2])
    md = rnd.choice([4096, 20000, 1048576])
    ccfg = QuicConfiguration(is_client=True, congestion_control_algorithm=cc, max_data=md, max_stream_data=md, original_version=ver)
    ccfg.load_verify_locations(cafile=SERVER_CACERTFILE); ccfg.server_name="localhost"
    scfg = QuicConfiguration(is_client=False, congestion_control_algorithm=cc, max_data=md, max_stream_data=md)
    scfg.certificate, scfg.private_key = CERT, KEY
    client = QuicConnection(configuration=ccfg)
    server = QuicConnection(configuration=scfg, original_destination_connection_id=client.original_destination_connection_id)
    ep = {"c": client, "s": server}
    addr = {"c": CA, "s": SA}
    heap=[]; seq=[0]
    def push(t, kind, *a):
        seq[0]+=1; heapq.heappush(heap,(t,seq[0],kind,a))
    written = collections.defaultdict(bytearray); finw=set(); resetw=set()
    recvd = collections.defaultdict(bytearray); fin_seen=collections.Counter(); reset_seen=set()
    terminated = {}
    sent_to=collections.Counter(); recv_from=collections.Counter()
    timer_gen={"c":0,"s":0}
    hs = {"c":False,"s":False}
    stats=collections.Counter()
    ADV_END = rnd.uniform(0.5, 4.0)
    # app script
    nops = rnd.randint(1,8)
    for i in range(nops):
        push(rnd.uniform(0, ADV_END), "app", rnd.choice("cs"), rnd.random(), rnd.random(), rnd.random())
    def fate(now):
        if now >= ADV_END: return [("d", 0.01)]
        r = rnd.random()
        if r < 0.55: return [("d", rnd.uniform(0,0.3))]
        if r < 0.75: stats["drop"]+=1; return []
        if r < 0.90 and dup: stats["dup"]+=1; return [("d", rnd.uniform(0,0.3)), ("d", rnd.uniform(0,0.3))]
        return [("d", rnd.uniform(0.3,1.0))]
    def after(x, now):
        c = ep[x]
        while True:
            e = c.next_event()
            if e is None: break
            if x in terminated: raise Violation(f"event after termination {e}")
            if isinstance(e, events.HandshakeCompleted): hs[x]=True
            if isinstance(e, events.StreamDataReceived):
                k=(x,e.stream_id)
                
                if fin_seen[k]:
                    if e.data==b"" and e.end_stream: stats["dup_eos"]+=1; continue
                    raise Violation(f"data after end_stream on {k}")
                recvd[k]+=e.data
                peer = "s" if x=="c" else "c"
                w = written[(peer,e.stream_id)]
                if bytes(recvd[k]) != bytes(w[:len(recvd[k])]): raise Violation(f"not a prefix on {k}")
                if e.end_stream:
                    fin_seen[k]+=1
                    if len(recvd[k])!=len(w): raise Violation(f"early eos {k}")
                    if (peer,e.stream_id) not in finw: stats["eos_without_fin_after_reset"]+=1
            if isinstance(e, events.StreamReset): reset_seen.add((x,e.stream_id))
            if isinstance(e, events.ConnectionTerminated):
                terminated[x]=e
                raise Violation(f"terminated {x}: {e}")
        if x in terminated: return
        for d,a in c.datagrams_to_send(now):
            if len(d) > c._max_datagram_size: raise Violation("datagram too big")
            b0=d[0]
            if b0 & 0x80:
                v=int.from_bytes(d[1:5],"big"); ty=(b0&0x30)>>4
                is_init = (v==1 and ty==0) or (v==0x6b3343cf and ty==1)
                if is_init:
                    stats["init_dgram_"+x]+=1
                    if x=="c" and len(d)<1200: raise Violation(f"client initial datagram short {len(d)}")
                    if x=="s" and len(d)<1200: stats["server_init_short"]+=1
            if x=="s":
                sent_to[a]+=len(d)
                p=[p for p in c._network_paths if p.addr==a]
                if p and not p[0].is_validated and sent_to[a] > 3*recv_from[a]: raise Violation(f"amplification {sent_to[a]} > 3*{recv_from[a]}")
            stats["dgram"]+=1
            peer = "s" if x=="c" else "c"
            for _,delay in fate(now):
                push(now+delay, "rx", peer, d, addr[x])
        t = c.get_timer()
        if t is None: raise Violation(f"no timer while live on {x}")
        timer_gen[x]+=1
        push((t if t>now else now+1e-3)+1e-6, "timer", x, timer_gen[x])
    streams={"c":[], "s":[]}
    client.connect(SA, now=0.0); after("c",0.0)
    now=0.0; steps=0
    while heap:
        t,_,kind,a = heapq.heappop(heap); now=max(now,t); steps+=1
        if steps>20000 or now>60: break
        if kind=="rx":
            x,d,src=a
            if x in terminated: continue
            if x=="s": recv_from[src]+=len(d)
            ep[x].receive_datagram(d, src, now); after(x, now)
        elif kind=="timer":
            x,g=a
            if g!=timer_gen[x] or x in terminated: continue
            ep[x].handle_timer(now); after(x, now)
        elif kind=="app":
            x,r1,r2,r3=a
            c=ep[x]
            if x=="s" and not hs["s"]: continue
            if x=="c" and not hs["c"] and r3<0.5: continue
            if r1<0.6 or not streams[x]:
                sid=c.get_next_available_stream_id(is_unidirectional=r2<0.3); streams[x].append(sid)
            else: sid=rnd.choice(streams[x])
            if (x,sid) in finw or (x,sid) in resetw: continue
            if r3<0.08: c.reset_stream(sid, 7); resetw.add((x,sid)); after(x,now); continue
            if KU and r3<0.12 and hs[x]: c.request_key_update(); stats["ku"]+=1
            if r3>0.9 and x=="c" and rebind: addr["c"]=CA2; stats["rebind"]+=1
            n = rnd.choice([0,1,5,1199,1200,1201,5000,20000])
            w=written[(x,sid)]; d=data_for(sid,len(w),n); w+=d
            fin = r2>0.5 and (n>0 or not NOFINONLY)
            if fin: finw.add((x,sid))
            c.send_stream_data(sid, d, end_stream=fin); after(x,now)
    # liveness
    for (x,sid),w in written.items():
        if (x,sid) in resetw: continue
        peer="s" if x=="c" else "c"
        if bytes(recvd[(peer,sid)])!=bytes(w): raise Violation(f"undelivered {x}->{peer} sid {sid}: {len(recvd[(peer,sid)])}/{len(w)} t={now:.2f} steps={steps}")
        if (x,sid) in finw and fin_seen[(peer,sid)]!=1: raise Violation(f"fin not delivered {sid}")
    return stats

if __name__=="__main__":
    import time
    dup = sys.argv[1]=="dup"; rebind = len(sys.argv)>4 and sys.argv[4]=="rebind"
    buckets=collections.Counter(); ex={}
    t0=time.time(); tot=collections.Counter()
    for seed in range(int(sys.argv[2]), int(sys.argv[3])):
        try:
            tot.update(run_case(seed, dup=dup, rebind=rebind))
        except Violation as v:
            k=str(v).split(":")[0][:40]; buckets[k]+=1; ex.setdefault(k,(seed,str(v)))
        except Exception as e:
            tb=traceback.extract_tb(e.__traceback__)[-1]
            k=f"EXC {type(e).__name__} {tb.name}"; buckets[k]+=1; ex.setdefault(k,(seed,str(e)))
    print("time", time.time()-t0, dict(tot))
    for k,v in buckets.items(): print(v, k, ex[k])
