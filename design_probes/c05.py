import sys, io, random, collections, traceback, time, hmac, hashlib, struct
sys.path.insert(0, "/repo/src"); sys.path.insert(0, "/repo")
from aioquic.quic.configuration import QuicConfiguration
from aioquic.quic.connection import QuicConnection
from aioquic.quic import events
from aioquic.buffer import Buffer, encode_uint_var
from tests.utils import SERVER_CERTFILE, SERVER_KEYFILE, SERVER_CACERTFILE
from cryptography.hazmat.primitives.ciphers.aead import AESGCM, ChaCha20Poly1305
from cryptography.hazmat.primitives.ciphers import Cipher, algorithms, modes
_scfg = QuicConfiguration(is_client=False); _scfg.load_cert_chain(SERVER_CERTFILE, SERVER_KEYFILE)
CA=("1.2.3.4",1234); SA=("2.3.4.5",4433)
def hkdf_expand_label(hashname, secret, label, ctx, length):
    info = struct.pack("!HB", length, len(b"tls13 "+label)) + b"tls13 " + label + bytes([len(ctx)]) + ctx
    out=b""; t=b""; i=1
    while len(out)<length:
        t = hmac.new(secret, t+info+bytes([i]), hashname).digest(); out+=t; i+=1
    return out[:length]
def keys(secret):
    h="sha384"; klen=32
    return (hkdf_expand_label(h, secret, b"quic key", b"", klen), hkdf_expand_label(h, secret, b"quic iv", b"", 12), hkdf_expand_label(h, secret, b"quic hp", b"", klen))
def protect(key, iv, hp, header, pn, pnlen, payload):
    pnb = pn.to_bytes(8,"big")[-pnlen:]; hdr = header + pnb
    nonce = bytes(a^b for a,b in zip(iv, pn.to_bytes(12,"big")))
    if len(payload) < 4: payload += bytes(4-len(payload))
    ct = AESGCM(key).encrypt(nonce, payload, hdr)
    sample = ct[4-pnlen:4-pnlen+16]
    mask = Cipher(algorithms.AES(hp), modes.ECB()).encryptor().update(sample)
    b0 = hdr[0] ^ (mask[0] & (0x0f if hdr[0]&0x80 else 0x1f))
    pnm = bytes(a^b for a,b in zip(pnb, mask[1:1+pnlen]))
    return bytes([b0]) + header[1:] + pnm + ct
def pair():
    clog=io.StringIO()
    ccfg = QuicConfiguration(is_client=True, secrets_log_file=clog); ccfg.load_verify_locations(cafile=SERVER_CACERTFILE); ccfg.server_name="localhost"
    scfg = QuicConfiguration(is_client=False); scfg.certificate, scfg.private_key=_scfg.certificate,_scfg.private_key
    c=QuicConnection(configuration=ccfg); s=QuicConnection(configuration=scfg, original_destination_connection_id=c.original_destination_connection_id)
    c.connect(SA, now=0.0); now=0.0
    for i in range(4):
        for d,a in c.datagrams_to_send(now): s.receive_datagram(d, CA, now)
        for d,a in s.datagrams_to_send(now): c.receive_datagram(d, SA, now)
        now+=0.01
    sec={l.split()[0]: bytes.fromhex(l.split()[2]) for l in clog.getvalue().splitlines()}
    return c,s,sec,now
BV=[0,1,2,3,4,7,8,63,64,100,1199,1200,16383,16384,2**30-1,2**30,2**60,2**60+1,2**62-1]
def v(rnd): return encode_uint_var(rnd.choice(BV) if rnd.random()<0.8 else rnd.randrange(2**62))
def sid(rnd): return encode_uint_var(rnd.choice([0,1,2,3,4,5,6,7,8,400,401,402,403,2**62-1]))
def frame(rnd):
    t=rnd.choice([0,1,2,3,4,5,6,7,8,9,10,11,12,13,14,15,0x10,0x11,0x12,0x13,0x14,0x15,0x16,0x17,0x18,0x19,0x1a,0x1b,0x1c,0x1d,0x1e,0x30,0x31,0x1f,0x40,0x21])
    b=bytearray(encode_uint_var(t))
    def data(n): return bytes(rnd.randrange(256) for _ in range(n))
    if t in (2,3):
        b+=v(rnd)+v(rnd); n=rnd.choice([0,0,1,2,5]); b+=encode_uint_var(n)+v(rnd)
        for _ in range(n): b+=v(rnd)+v(rnd)
        if t==3: b+=v(rnd)+v(rnd)+v(rnd)
    elif t==4: b+=sid(rnd)+v(rnd)+v(rnd)
    elif t==5: b+=sid(rnd)+v(rnd)
    elif t==6: n=rnd.choice([0,1,10,100]); b+=v(rnd)+encode_uint_var(n)+data(n)
    elif t==7: n=rnd.choice([0,1,50]); b+=encode_uint_var(n)+data(n)
    elif 8<=t<=15:
        b+=sid(rnd)
        if t&4: b+=v(rnd)
        n=rnd.choice([0,1,10,100])
        if t&2: b+=encode_uint_var(n if rnd.random()<0.9 else n+5)
        b+=data(n)
    elif t in (0x10,0x12,0x13,0x14,0x16,0x17,0x19): b+=v(rnd)
    elif t in (0x11,0x15): b+=sid(rnd)+v(rnd)
    elif t==0x18:
        n=rnd.choice([0,1,8,20,21]); b+=encode_uint_var(rnd.choice([0,1,2,3,4,5,9]))+encode_uint_var(rnd.choice([0,1,2,3,4,5]))+bytes([n])+data(n)+data(16)
    elif t in (0x1a,0x1b): b+=data(8)
    elif t==0x1c: n=rnd.choice([0,5]); b+=v(rnd)+v(rnd)+encode_uint_var(n)+data(n)
    elif t==0x1d: n=rnd.choice([0,5]); b+=v(rnd)+encode_uint_var(n)+data(n)
    elif t==0x31: n=rnd.choice([0,5,50]); b+=encode_uint_var(n)+data(n)
    elif t==0x30: b+=data(rnd.choice([0,5]))
    if rnd.random()<0.05 and len(b)>1: b=b[:rnd.randrange(1,len(b))]
    return bytes(b)
buckets=collections.Counter(); ex={}; closes=collections.Counter(); n=0; t0=time.time()
for seed in range(int(sys.argv[1])):
    rnd=random.Random(seed)
    c,s,sec,now=pair()
    target_is_server = rnd.random()<0.5
    tgt = s if target_is_server else c
    k,iv,hp = keys(sec["CLIENT_TRAFFIC_SECRET_0" if target_is_server else "SERVER_TRAFFIC_SECRET_0"])
    dcids=[x.cid for x in tgt._host_cids]
    pn=100
    try:
        for step in range(rnd.randint(1,25)):
            n+=1
            payload=b"".join(frame(rnd) for _ in range(rnd.randint(1,4)))
            dcid=rnd.choice(dcids)
            pkt=protect(k,iv,hp,bytes([0x41])+dcid, pn, 2, payload); pn+=rnd.choice([1,1,1,2,5])
            now+=rnd.choice([0,0.001,0.05])
            tgt.receive_datagram(pkt, CA if target_is_server else SA, now)
            while True:
                e=tgt.next_event()
                if e is None: break
                if isinstance(e, events.ConnectionTerminated): closes[e.error_code]+=1
            tgt.datagrams_to_send(now)
            t=tgt.get_timer()
            if t is not None and rnd.random()<0.3:
                now=max(now,t)+1e-6; tgt.handle_timer(now); tgt.datagrams_to_send(now)
            dcids=[x.cid for x in tgt._host_cids] or dcids
            if tgt._close_event is not None:
                closes[(int(tgt._close_event.error_code), tgt._close_event.reason_phrase[:30])]+=1; break
    except Exception as e:
        tb=traceback.extract_tb(e.__traceback__)
        inner=[f for f in tb if "/aioquic/" in f.filename][-1]
        entry=[f for f in tb if "/aioquic/" in f.filename][0]
        key=f"{type(e).__name__} @ {inner.name} (via {entry.name})"
        buckets[key]+=1; ex.setdefault(key,(seed,str(e)[:80]))
print("packets",n,"time",round(time.time()-t0,1),"closes",dict(closes))
for k,vv in buckets.most_common(): print(vv,k,ex[k])
