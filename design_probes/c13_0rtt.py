"""Throw-away probe (DESIGN.md section 5 item 13): client Initial datagram sizes
when the congestion window is already full of 0-RTT data. Not machinery."""
import sys, time
sys.path.insert(0, "/repo")
from tests.test_connection import *

def is_initial(d):
    return bool(d[0] & 0x80) and ((d[0] & 0x30) >> 4) == 0 and int.from_bytes(d[1:5], "big") == 1

client_ticket = None
store = SessionTicketStore()
def save(t):
    global client_ticket
    client_ticket = t
with client_and_server(client_kwargs={"session_ticket_handler": save},
                       server_kwargs={"session_ticket_handler": store.add},
                       client_options={"original_version": 1}) as (c, s):
    pass
with client_and_server(client_options={"session_ticket": client_ticket, "original_version": 1},
                       server_kwargs={"session_ticket_fetcher": store.pop}, handshake=False) as (client, server):
    now = 0.0
    client.connect(SERVER_ADDR, now=now)
    sid = client.get_next_available_stream_id()
    client.send_stream_data(sid, b"z" * 40000)
    out = client.datagrams_to_send(now)
    print("client first flight", [(len(d), is_initial(d)) for d, a in out], "cwnd", client._loss.congestion_window, "bif", client._loss.bytes_in_flight)
    for d, a in out:
        server.receive_datagram(d, CLIENT_ADDR, now)
    sout = server.datagrams_to_send(now)
    print("server flight", [(len(d), is_initial(d)) for d, a in sout])
    # deliver only the first server datagram (contains the Initial), then let the client answer
    now += 0.01
    client.receive_datagram(sout[0][0], SERVER_ADDR, now)
    out2 = client.datagrams_to_send(now)
    print("client after server Initial", [(len(d), is_initial(d)) for d, a in out2], "cwnd", client._loss.congestion_window, "bif", client._loss.bytes_in_flight)
    short = [len(d) for d, a in out2 if is_initial(d) and len(d) < 1200]
    print("SHORT CLIENT INITIAL DATAGRAMS:", short)
