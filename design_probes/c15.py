import sys, itertools, collections, time
sys.path.insert(0,"/repo/src"); sys.path.insert(0,"/repo")
from aioquic.h3.connection import H3Connection, encode_frame, FrameType, ErrorCode
from aioquic.h3.events import HeadersReceived
from aioquic.quic.events import StreamDataReceived
from aioquic.quic.configuration import QuicConfiguration
from aioquic.buffer import encode_uint_var
class Q:
    def __init__(s, is_client):
        s.configuration=QuicConfiguration(is_client=is_client); s._quic_logger=None; s.closed=None; s._remote_max_datagram_frame_size=None
        s._u = 2 if is_client else 3; s._b = 0 if is_client else 1
    def get_next_available_stream_id(s, is_unidirectional=False):
        if is_unidirectional: r=s._u; s._u+=4
        else: r=s._b; s._b+=4
        return r
    def send_stream_data(s, *a, **k): pass
    def close(s, error_code, reason_phrase): s.closed=(error_code, reason_phrase)
def pint(value, prefix_bits, first):
    m=(1<<prefix_bits)-1
    if value<m: return bytes([first|value])
    out=bytearray([first|m]); value-=m
    while value>=128: out.append((value&0x7f)|0x80); value>>=7
    out.append(value); return bytes(out)
def qpack_literal(headers):
    out=bytearray(b"\x00\x00")
    for n,v in headers:
        out+=pint(len(n),3,0x20)+n+pint(len(v),7,0x00)+v
    return bytes(out)
def name_ok(n): return all(0x21<=c<=0x7e and not (0x41<=c<=0x5a) for c in n) and b":" not in n[1:]
def value_ok(v): return not any(c in (0,10,13) for c in v) and not (v and (v[0] in (0x20,9) or v[-1] in (0x20,9)))
def ok(headers, allowed, required):
    seen=set(); after=False
    for n,v in headers:
        if not name_ok(n) or not value_ok(v): return False
        if n.startswith(b":"):
            if after or n not in allowed or n in seen: return False
            seen.add(n)
        else: after=True
    return required<=seen
A=[0x00,0x09,0x0a,0x0d,0x20,0x21,0x3a,0x41,0x5a,0x61,0x7f,0x80,0xff]
def run(headers, server=True):
    q=Q(is_client=not server); h=H3Connection(q)
    data=encode_frame(FrameType.HEADERS, qpack_literal(headers))
    ev=h.handle_event(StreamDataReceived(stream_id=0, data=data, end_stream=False))
    return [e for e in ev if isinstance(e,HeadersReceived)], q.closed
base=[(b":method",b"GET"),(b":scheme",b"https"),(b":authority",b"a"),(b":path",b"/")]
REQ_ALLOWED={b":method",b":scheme",b":authority",b":path",b":protocol"}
bad=collections.Counter(); n=0; t0=time.time()
for L in (1,2,3):
    for name in itertools.product(A, repeat=L):
        name=bytes(name); hs=base+[(name,b"v")]
        evs,closed=run(hs); n+=1
        good=ok(hs,REQ_ALLOWED,{b":method"})
        if evs and not good: bad[("delivered-invalid-name",name)]+=1
        if not good and not (closed and closed[0]==ErrorCode.H3_MESSAGE_ERROR and not evs): bad[("invalid-not-msgerr",name,closed)]+=1
    for val in itertools.product(A, repeat=L):
        val=bytes(val); hs=base+[(b"x",val)]
        evs,closed=run(hs); n+=1
        good=ok(hs,REQ_ALLOWED,{b":method"})
        if evs and not good: bad[("delivered-invalid-value",val)]+=1
        if not good and not (closed and closed[0]==ErrorCode.H3_MESSAGE_ERROR and not evs): bad[("invalid-value-not-msgerr",val,closed)]+=1
print("cases",n,"time",round(time.time()-t0,1),"bad",len(bad)); 
for k in list(bad)[:10]: print(k)
# empty name and value
print(run(base+[(b"",b"v")]), run(base+[(b"x",b"")]))
