import sys
seed=int(sys.argv[1]); sys.argv=["x"]
import sim
from sim import *
import aioquic.quic.connection as C
o_rx=C.QuicConnection.receive_datagram; o_tx=C.QuicConnection.datagrams_to_send; o_ht=C.QuicConnection.handle_timer; o_ss=C.QuicConnection.send_stream_data
def who(s): return "C" if s._is_client else "S"
def rx(self,d,a,now): print(f"{now:8.4f} {who(self)} rx {len(d)}"); return o_rx(self,d,a,now)
def tx(self,now):
    r=o_tx(self,now)
    print(f"{now:8.4f} {who(self)} tx {[len(x[0]) for x in r]} timer={self.get_timer()} cwnd={self._loss.congestion_window} bif={self._loss.bytes_in_flight} pacing_at={self._pacing_at} loss_at={self._loss.get_loss_detection_time()} hs={self._handshake_complete}/{self._handshake_confirmed}")
    return r
def ht(self,now): print(f"{now:8.4f} {who(self)} timer"); return o_ht(self,now)
def ss(self,sid,d,end_stream=False): print(f"         {who(self)} write sid={sid} n={len(d)} fin={end_stream}"); return o_ss(self,sid,d,end_stream)
C.QuicConnection.receive_datagram=rx; C.QuicConnection.datagrams_to_send=tx; C.QuicConnection.handle_timer=ht; C.QuicConnection.send_stream_data=ss
try: print(run_case(seed, dup=True, rebind=True))
except Exception as e: print("RESULT", e)
