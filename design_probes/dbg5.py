import sys
seed=int(sys.argv[1]); sys.argv=["x"]
import logging
from sim import *
logging.basicConfig(level=logging.DEBUG, format="%(name)s %(message)s")
try: print(run_case(seed, dup=True, rebind=True))
except Exception as e: print("RESULT", e)
