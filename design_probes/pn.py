import sys
sys.path.insert(0,"/repo/src")
from aioquic.quic.packet import decode_packet_number
def brute(t, bits, expected):
    win=1<<bits
    base=(expected//win)*win
    cands=[c for c in (base-win+t, base+t, base+win+t) if 0<=c<(1<<62)]
    return min(cands, key=lambda c:(abs(c-expected), -c))
bad=0; n=0
for bits in (8,):
    for base in (0, 1<<8, (1<<16)-256, 1<<30, (1<<62)-512, (1<<62)-256):
        for expected in range(max(0,base-300), min(1<<62, base+300)):
            for t in range(1<<bits):
                n+=1
                a=decode_packet_number(t,bits,expected); b=brute(t,bits,expected)
                if a!=b:
                    bad+=1
                    if bad<6: print("DIFF bits",bits,"t",t,"exp",expected,"aioquic",a,"brute",b)
print("cases",n,"bad",bad)
