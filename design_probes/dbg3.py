import sys
seed=int(sys.argv[1]); sys.argv=["x"]
import logging
from sim import *
logging.basicConfig(level=logging.INFO, format="%(name)s %(message)s")
try:
    print(run_case(seed, dup=False))
except Exception as e:
    print("RESULT", e)
