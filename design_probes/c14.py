import sys, random, collections, time
sys.path.insert(0,"/repo/src")
from aioquic.h3.connection import H3Connection
from aioquic.h3.events import *
from aioquic.quic.events import StreamDataReceived
from aioquic.quic.configuration import QuicConfiguration
class Q:
    def __init__(s, is_client):
        s.configuration=QuicConfiguration(is_client=is_client); s._quic_logger=None; s.closed=None; s._remote_max_datagram_frame_size=65536
        s._u = 2 if is_client else 3; s._b = 0 if is_client else 1
        s.out=collections.OrderedDict(); s.fin=set()
    def get_next_available_stream_id(s, is_unidirectional=False):
        if is_unidirectional: r=s._u; s._u+=4
        else: r=s._b; s._b+=4
        return r
    def send_stream_data(s, sid, data, end_stream=False):
        s.out.setdefault(sid, bytearray()).extend(data)
        if end_stream: s.fin.add(sid)
    def close(s, error_code, reason_phrase): s.closed=(error_code, reason_phrase)
def norm(events):
    per=collections.defaultdict(lambda: {"items":[], "ended":False})
    for e in events:
        if isinstance(e, HeadersReceived):
            per[e.stream_id]["items"].append(("H", tuple(e.headers), e.push_id)); per[e.stream_id]["ended"]|=e.stream_ended
        elif isinstance(e, DataReceived):
            it=per[e.stream_id]["items"]
            if e.data:
                if it and it[-1][0]=="D": it[-1]=("D", it[-1][1]+e.data, e.push_id)
                else: it.append(("D", e.data, e.push_id))
            per[e.stream_id]["ended"]|=e.stream_ended
        elif isinstance(e, PushPromiseReceived):
            per[e.stream_id]["items"].append(("P", tuple(e.headers), e.push_id))
        elif isinstance(e, WebTransportStreamDataReceived):
            it=per[e.stream_id]["items"]
            if it and it[-1][0]=="W": it[-1]=("W", it[-1][1]+e.data, e.session_id)
            elif e.data or True: it.append(("W", e.data, e.session_id))
            per[e.stream_id]["ended"]|=e.stream_ended
    return {k:(tuple(v["items"]), v["ended"]) for k,v in per.items()}
def gen_traffic(rnd):
    # server <- client requests; first give client the server's settings so it uses dynamic table
    qs=Q(False); hs=H3Connection(qs, enable_webtransport=True)
    qc=Q(True); hc=H3Connection(qc, enable_webtransport=True)
    for sid,data in list(qs.out.items()):
        hc.handle_event(StreamDataReceived(stream_id=sid, data=bytes(data), end_stream=False))
    names=[b"x-a", b"x-b", b"user-agent", b"accept", b"x-long-"+b"n"*20]
    for i in range(rnd.randint(1,4)):
        sid=qc.get_next_available_stream_id()
        hdrs=[(b":method",rnd.choice([b"GET",b"POST"])),(b":scheme",b"https"),(b":authority",b"example.com"),(b":path",b"/"+bytes([97+i]))]
        for j in range(rnd.randint(0,4)):
            hdrs.append((rnd.choice(names), rnd.choice([b"v1", b"value-two", b"z"*rnd.randint(0,40)])))
        nbody=rnd.choice([0,0,1,5,100,3000]); parts=rnd.randint(0,3) if nbody else rnd.randint(0,1)
        trailers=rnd.random()<0.3
        if nbody and rnd.random()<0.5: hdrs.append((b"content-length", str(nbody).encode()))
        end_on_headers = parts==0 and not trailers
        hc.send_headers(sid, hdrs, end_stream=end_on_headers)
        body=bytes(rnd.randrange(256) for _ in range(nbody)) if parts else b""
        if parts==0 and nbody: hdrs  # no body sent; content-length mismatch avoided by not adding? simplistic
        cuts=sorted(rnd.randrange(len(body)+1) for _ in range(parts-1)) if parts>1 else []
        pieces=[body[a:b] for a,b in zip([0]+cuts, cuts+[len(body)])] if parts else []
        for k,p in enumerate(pieces):
            hc.send_data(sid, p, end_stream=(k==len(pieces)-1 and not trailers))
        if trailers: hc.send_headers(sid, [(b"x-trailer", b"t")], end_stream=True)
    if rnd.random()<0.3:
        wid=hc.create_webtransport_stream(0, is_unidirectional=rnd.random()<0.5)
        qc.send_stream_data(wid, b"wtdata"*rnd.randint(0,5), end_stream=True)
    return {sid:(bytes(d), sid in qc.fin) for sid,d in qc.out.items()}
def deliver(streams, plan):
    qs=Q(False); hs=H3Connection(qs, enable_webtransport=True)
    evs=[]
    for sid,chunk,fin in plan:
        evs+=hs.handle_event(StreamDataReceived(stream_id=sid, data=chunk, end_stream=fin))
    return norm(evs), qs.closed
def ref_plan(streams):
    order=sorted(streams, key=lambda s:(s%4==0, s))  # uni first
    return [(sid, streams[sid][0], streams[sid][1]) for sid in order]
def rand_plan(streams, rnd):
    queues={}
    for sid,(d,fin) in streams.items():
        k=rnd.choice([1,2,3,len(d) or 1]) ; cuts=sorted(rnd.randrange(len(d)+1) for _ in range(k-1))
        ch=[d[a:b] for a,b in zip([0]+cuts, cuts+[len(d)])]
        queues[sid]=[(sid,c,fin and i==len(ch)-1) for i,c in enumerate(ch)]
        if rnd.random()<0.2 and fin: # separate FIN
            queues[sid][-1]=(sid,queues[sid][-1][1],False); queues[sid].append((sid,b"",True))
    plan=[]
    while queues:
        sid=rnd.choice(list(queues)); plan.append(queues[sid].pop(0))
        if not queues[sid]: del queues[sid]
    return plan
bad=collections.Counter(); ex={}; n=0; t0=time.time()
for seed in range(int(sys.argv[1])):
    rnd=random.Random(seed)
    try: streams=gen_traffic(rnd)
    except Exception as e: bad["gen:"+type(e).__name__]+=1; ex.setdefault("gen",(seed,repr(e))); continue
    ref,closed=deliver(streams, ref_plan(streams))
    if closed: bad["ref-closed %s"%(closed,)]+=1; ex.setdefault("refclosed",(seed,closed)); continue
    for j in range(10):
        n+=1
        plan=rand_plan(streams, rnd)
        try: got,closed=deliver(streams, plan)
        except Exception as e: bad["exc:"+type(e).__name__]+=1; ex.setdefault("exc",(seed,repr(e))); continue
        if closed: bad["closed %s"%(closed,)]+=1; ex.setdefault("closed",(seed,j,closed)); continue
        if got!=ref:
            diff=[sid for sid in set(got)|set(ref) if got.get(sid)!=ref.get(sid)]
            bad["diff"]+=1; ex.setdefault("diff",(seed,j,diff,[ (got.get(s), ref.get(s)) for s in diff][:1]))
print("plans",n,"time",round(time.time()-t0,1),dict(bad)); 
for k,v in ex.items(): print(k, str(v)[:600])
